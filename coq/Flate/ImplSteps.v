(* The three step functions of the Reader (readBlockHeader, readRawData, readBlock) against the
   residual computation of the specification: what the whole-stream run of Flate.Spec still
   has to do from the state the implementation is in at a step boundary ([Fut]). *)
From V Require Import Base.Prelude Base.Prog Base.ProgThms Base.DepthThms Base.FuelThms Bzip2.Common Prefix.Code
  Prefix.ReaderImpl Prefix.ReaderSpec Prefix.ReaderThms
  Prefix.DecTable Prefix.DecTableSpec Prefix.DecTableThms Prefix.DecReadThms Prefix.DecReadBufThms
  Window.Dict Window.DictSpec Window.DictThms.
From V Require Flate.Spec Flate.Fuel.
From V Require Import Flate.Impl Flate.ImplRel Flate.ImplBits Flate.SpecChar Flate.ImplWin Flate.ImplCore
  Flate.SigmaThms Flate.ImplSym Flate.ImplCfg Flate.ImplFail Flate.ImplBlock Flate.ImplHdrPure.
From Coq Require Import ZifyBool ZifyN ZifyNat.

Local Open Scope N_scope.
Local Open Scope fl_scope.

Definition pad (R : nat) : nat := ((8 - R mod 8) mod 8)%nat.

Lemma raw_bytes_split a : forall b s,
  run (Flate.Spec.raw_bytes (a + b)) s =
  match run (Flate.Spec.raw_bytes a) s with
  | Done _ s1 => run (Flate.Spec.raw_bytes b) s1
  | Fail e s' => Fail e s'
  end.
Proof.
  induction a as [|a IH]; intros b s; cbn [Nat.add Flate.Spec.raw_bytes]; [reflexivity|].
  rewrite !run_bind. destruct (run (bits_lsbf 8) s) as [v s1|e s1]; [|reflexivity].
  cbn [run]. apply IH.
Qed.

Section Steps.
Variable data : list byte.
Hypothesis Hd : forall b, In b data -> b < 256.
Variable D : nat.
Hypothesis HD : (nbits data < 2 ^ D)%nat.

Notation sbody := (Flate.Spec.stream_body D).

(* what the specification does after a block that ended at (R, out) *)
Definition after_block (last : bool) (R : nat) (out : list byte) (r : result unit) : Prop :=
  if last then r = Done tt (sigma data (R + pad R) out)
  else loops sbody tt (sigma data R out) r.

(* ... and after the block data whose run is rb *)
Definition blk_cont (last : bool) (rb r : result unit) : Prop :=
  match rb with
  | Fail e s' => r = Fail e s'
  | Done _ s' => exists R' out', s' = sigma data R' out' /\ (R' <= nbits data)%nat /\
                                 after_block last R' out' r
  end.

(* the stream body, from the block data on *)
Definition tail_of (last : bool) (rb : result unit) : result (unit + unit) :=
  match rb with
  | Fail e s' => Fail e s'
  | Done _ s1 => if last then run (AlignP (fun _ => Ret (inr tt))) s1 else Done (inl tt) s1
  end.

Lemma cont_of_loops last rb r s :
  loops sbody tt s r -> run (sbody tt) s = tail_of last rb ->
  (forall u s1, rb = Done u s1 -> exists R1 out1, s1 = sigma data R1 out1 /\ (R1 <= nbits data)%nat) ->
  blk_cont last rb r.
Proof.
  intros HL E Hsh. destruct rb as [u s1|e s']; cbn [tail_of blk_cont] in *.
  - destruct (Hsh u s1 eq_refl) as (R1 & out1 & -> & HR1). exists R1, out1.
    split; [reflexivity|]. split; [exact HR1|]. unfold after_block. destruct last.
    + rewrite (run_align data Hd R1 out1 _ HR1) in E. cbn [run] in E.
      apply (loops_inv_done _ _ _ _ _ _ HL E).
    + apply (loops_inv_step _ _ _ _ _ _ HL E).
  - apply (loops_inv_fail _ _ _ _ _ _ HL E).
Qed.

(* ---- the residual computation --------------------------------------------------------------- *)
Definition MinOK (st : flst) : Prop :=
  forall d, (lit_tree st = ROk d \/ dist_tree st = ROk d) -> d_minBits d <= 57.

Inductive Fut (bf : bool) (st : flst) (R : nat) (out : list byte) (r : result unit) : Prop :=
| FutDone :
    f_err st = Some EEOF -> BIs data 0 R (f_rd st) -> (R mod 8 = 0)%nat ->
    r = Done tt (sigma data R out) -> Fut bf st R out r
| FutFail e :
    f_err st = Some e -> (e = EUEOF \/ e = ECorrupted) -> fails e out r -> Fut bf st R out r
| FutDev :
    f_err st = Some EUEOF -> bf = false -> fails_after out r -> Fut bf st R out r
| FutHeader :
    f_err st = None -> f_step st = StHeader -> f_stepState st = false -> BIs data 0 R (f_rd st) ->
    loops sbody tt (sigma data R out) r -> Fut bf st R out r
| FutRaw n :
    f_err st = None -> f_step st = StRaw -> f_stepState st = false -> BIs data 0 R (f_rd st) ->
    (R mod 8 = 0)%nat ->
    f_blkLen st = Z.of_nat n -> (0 < n)%nat ->
    blk_cont (f_last st) (run (Flate.Spec.raw_bytes n) (sigma data R out)) r -> Fut bf st R out r
| FutBlock tl td ks rb :
    f_err st = None -> f_step st = StBlock -> f_stepState st = false ->
    BlockCfg data st tl td ks -> MinOK st -> BIs data ks R (f_rd st) ->
    loops (Flate.Spec.block_body tl td) tt (sigma data R out) rb -> blk_cont (f_last st) rb r ->
    Fut bf st R out r
| FutCopy tl td ks rb :
    f_err st = None -> f_step st = StBlock -> f_stepState st = true ->
    BlockCfg data st tl td ks -> MinOK st -> BIs data ks R (f_rd st) ->
    (0 < f_cpyLen st <= 258)%Z -> (0 < f_dist st <= Z.min maxHistSize (zlen out))%Z ->
    loops (Flate.Spec.block_body tl td) tt
          (sigma data R (lz_copy out (f_dist st) (Z.to_nat (f_cpyLen st)))) rb ->
    blk_cont (f_last st) rb r ->
    Fut bf st R out r.

(* the fields a step may not touch *)
Definition io_frame (st st' : flst) : Prop :=
  f_inOff st' = f_inOff st /\ f_outOff st' = f_outOff st /\
  p_buffered (f_rd st') = p_buffered (f_rd st).

(* the outcome of one step function *)
Inductive step_out (bf : bool) (st : flst) (R : nat) (out : list byte) (fl : Z) (r : result unit) : res unit * flst -> Prop :=
| SO_ok st' R' out' fl' :
    io_frame st st' -> WInv2 (f_dict st') out' fl' ->
    ((f_toRead st' = f_toRead st /\ fl' = fl) \/
     (f_toRead st' = zskipn fl out' /\ fl' = zlen out')) ->
    (* progress: input consumed, or something to deliver, or finished *)
    ((R < R')%nat \/ f_toRead st' <> [] \/ f_err st' <> None) ->
    (f_err st' = None \/ f_err st' = Some EEOF) ->
    Fut bf st' R' out' r -> prefix_of out out' ->
    step_out bf st R out fl r (ROk tt, st')
| SO_fail st' e out' :
    (e = EUEOF \/ e = ECorrupted \/ e = EInvalid) ->
    f_inOff st' = f_inOff st -> f_outOff st' = f_outOff st ->
    WInv2 (f_dict st') out' fl -> f_toRead st' = f_toRead st ->
    (exists k R', BIs data k R' (f_rd st')) ->
    (fails (err_wrap e) out' r \/ (bf = false /\ e = EUEOF /\ fails_after out' r)) ->
    prefix_of out out' ->
    step_out bf st R out fl r (RThrow e, st').

Hypothesis HBF : BitsFailOK data.
Hypothesis HSF : forall d, d_minBits d <= 57 -> SymFailOK data d.

(* ---- readBlock ------------------------------------------------------------------------------------ *)
Lemma read_block_eq st :
  read_block st = read_block_loop (2 * Z.to_nat (avail_size (f_dict st)) + 4) (f_stepState st) st.
Proof. reflexivity. Qed.

Lemma blk_cont_fail last e s' r : blk_cont last (Fail e s') r -> r = Fail e s'.
Proof. intros H. exact H. Qed.

Lemma sigma_inj R1 out1 R2 out2 : sigma data R1 out1 = sigma data R2 out2 -> R1 = R2 /\ out1 = out2.
Proof.
  unfold sigma. intros E. inversion E as [[E1 E2 E3 E4]]. split; [lia|].
  apply (f_equal (@rev byte)) in E3. rewrite !rev_involutive in E3. exact E3.
Qed.

Lemma block_step bf st R out fl r tl td ks rb :
  p_buffered (f_rd st) = bf -> WInv2 (f_dict st) out fl ->
  f_err st = None -> f_step st = StBlock ->
  BlockCfg data st tl td ks -> MinOK st -> BIs data ks R (f_rd st) ->
  (if f_stepState st
   then (0 < f_cpyLen st <= 258)%Z /\ (0 < f_dist st <= Z.min maxHistSize (zlen out))%Z /\
        loops (Flate.Spec.block_body tl td) tt
              (sigma data R (lz_copy out (f_dist st) (Z.to_nat (f_cpyLen st)))) rb
   else loops (Flate.Spec.block_body tl td) tt (sigma data R out) rb) ->
  blk_cont (f_last st) rb r ->
  step_out bf st R out fl r (read_block st).
Proof.
  intros Hbf HW Herr Hstep HC HM HB Hsp Hcont.
  destruct HC as (lt & dt & ml & md & dv & lenfl & lenfd & Hlt & Hdt & HSl & HSd & HTl & Hks & Hdv).
  assert (HFl : SymFailOK data lt) by (apply HSF, HM; left; exact Hlt).
  assert (HFd : SymFailOK data dt) by (apply HSF, HM; right; exact Hdt).
  pose proof (w2_avail _ _ _ HW) as Hav.
  rewrite read_block_eq.
  assert (Hneed : (need (f_stepState st) (avail_size (f_dict st))
                   <= 2 * Z.to_nat (avail_size (f_dict st)) + 4)%nat).
  { unfold need. destruct (f_stepState st); lia. }
  pose proof (block_loop_sim data Hd lt dt tl td ml md dv lenfl lenfd HSl HSd HTl HFl HFd HBF ks Hks
                (2 * Z.to_nat (avail_size (f_dict st)) + 4) (f_stepState st) st R out fl rb
                (conj Hlt Hdt) HB HW Hneed Hsp) as Hsim.
  assert (Hcfg' : forall st', same_static st st' -> p_buffered (f_rd st') = p_buffered (f_rd st) ->
                    BlockCfg data st' tl td ks /\ MinOK st').
  { intros st' HS Hb'. split.
    - exists lt, dt, ml, md, dv, lenfl, lenfd.
      rewrite (lit_tree_static _ _ HS), (dist_tree_static _ _ HS), Hb'.
      exact (conj Hlt (conj Hdt (conj HSl (conj HSd (conj HTl (conj Hks Hdv)))))).
    - intros d Hd'. apply HM. rewrite <- (lit_tree_static _ _ HS), <- (dist_tree_static _ _ HS). exact Hd'. }
  destruct Hsim as [st' R' out' A1 A2 A3 A4 A5 A6 A7 A8 A8' A9 A9' Ap
                   |st' R' out' A1 A2 A3 A4 A5 A6 A7 A8 A8' A9 A10 A11 A11' Ap
                   |st' R1 R' out' A1 A2 A3 A4 A5 A6 A7 A8 A9 A10 A10' Ap
                   |st' e out' A1 A2 A3 A4 A5 A6 A7 Ap
                   |st' out' A1 A2 A3 A4 A5 A6 A7 Ap].
  - (* interrupted at a literal *)
    destruct (Hcfg' st' A4 A5) as [HC' HM'].
    apply (SO_ok _ _ _ _ _ _ st' R' out' (zlen out')); [| | | | | | exact Ap].
    + destruct A4 as (B1&B2&_). repeat split; assumption.
    + exact A7.
    + right. split; [exact A8 | reflexivity].
    + right; left. exact A8'.
    + left. congruence.
    + apply (FutBlock _ _ _ _ _ tl td ks rb); try assumption; try congruence.
      destruct A4 as (_&_&B3&_). rewrite B3. exact Hcont.
  - (* interrupted inside a copy *)
    destruct (Hcfg' st' A4 A5) as [HC' HM'].
    apply (SO_ok _ _ _ _ _ _ st' R' out' (zlen out')); [| | | | | | exact Ap].
    + destruct A4 as (B1&B2&_). repeat split; assumption.
    + exact A7.
    + right. split; [exact A8 | reflexivity].
    + right; left. exact A8'.
    + left. congruence.
    + apply (FutCopy _ _ _ _ _ tl td ks rb); try assumption; try congruence.
      destruct A4 as (_&_&B3&_). rewrite B3. exact Hcont.
  - (* end of block *)
    subst rb. cbn [blk_cont] in Hcont.
    destruct Hcont as (R1' & out1' & Esig & HR1 & Haft).
    destruct (sigma_inj _ _ _ _ Esig) as [<- <-].
    apply (SO_ok _ _ _ _ _ _ st' R' out' fl); [| | | | | | exact Ap].
    + destruct A3 as (B1&B2&_). repeat split; assumption.
    + exact A9.
    + left. split; [exact A10 | reflexivity].
    + destruct (f_last st) eqn:El.
      * right; right. destruct A7 as [_ E]. rewrite E. discriminate.
      * destruct A7 as [-> _]. left. exact A10'.
    + destruct (f_last st); destruct A7 as [_ E]; [right; exact E | left; congruence].
    + unfold after_block in Haft. destruct (f_last st) eqn:El.
      * destruct A7 as [-> E]. apply FutDone; try assumption.
        unfold pad. pose proof (Nat.mod_upper_bound R1 8). lia.
      * destruct A7 as [-> E]. apply FutHeader; try assumption; congruence.
  - (* failure *)
    destruct A6 as (s' & Erb & Ho). subst rb. cbn [blk_cont] in Hcont.
    destruct A2 as (B1&B2&_).
    apply (SO_fail _ _ _ _ _ _ st' e out'); try assumption.
    left. exists s'. split; assumption.
  - destruct A6 as (e' & s' & Erb & Ho). subst rb. cbn [blk_cont] in Hcont.
    destruct A2 as (B1&B2&_).
    apply (SO_fail _ _ _ _ _ _ st' EUEOF out'); try assumption.
    + left; reflexivity.
    + right. split; [rewrite <- Hbf; apply Hdv; exact A1|]. split; [reflexivity|].
      exists e', s'. split; assumption.
Qed.

(* ---- finishBlock ------------------------------------------------------------------------------------ *)
Lemma w2_wr dc out fl : WInv2 dc out fl -> (0 <= d_wr dc <= d_len dc)%Z.
Proof.
  intros [(s & I & _) _]. pose proof (i_rd _ _ I). pose proof (i_wr _ _ I). lia.
Qed.

(* finishBlock from a state at the end of the block data *)
Lemma finish_block_ok bf st R0 R out fl r :
  f_err st = None -> f_stepState st = false -> BIs data 0 R (f_rd st) -> (R <= nbits data)%nat ->
  WInv2 (f_dict st) out fl -> after_block (f_last st) R out r -> (R0 < R)%nat ->
  exists st', finish_block st = (ROk tt, st') /\
    io_frame st st' /\ f_dict st' = f_dict st /\ f_toRead st' = f_toRead st /\
    f_stepState st' = f_stepState st /\
    exists R', (R0 < R')%nat /\ (f_err st' = None \/ f_err st' = Some EEOF) /\
               (f_last st = true -> f_err st' = Some EEOF) /\ Fut bf st' R' out r.
Proof.
  intros Herr Hss0 HB HR HW Haft HR0. unfold finish_block.
  unfold mbind at 1. unfold mget at 1. unfold mbind at 1.
  unfold after_block in Haft. destruct (f_last st) eqn:El.
  - unfold mbind at 1. rewrite m_read_pads_eq.
    destruct (read_pads_sim data Hd 0 R (f_rd st) HB) as (Hp1 & _ & HBp & Hbfp).
    unfold mupd. eexists. split; [reflexivity|]. fl_simpl.
    split; [repeat split; exact Hbfp|]. split; [reflexivity|]. split; [reflexivity|]. split; [reflexivity|].
    exists (R + pad R)%nat. split; [lia|]. split; [right; reflexivity|]. split; [reflexivity|].
    apply FutDone; fl_simpl.
    + reflexivity.
    + eapply (BIs_weaken data Hd); [|exact HBp]. lia.
    + unfold pad. pose proof (Nat.mod_upper_bound R 8). lia.
    + exact Haft.
  - unfold ret, mupd. eexists. split; [reflexivity|]. fl_simpl.
    split; [repeat split|]. split; [reflexivity|]. split; [reflexivity|]. split; [reflexivity|].
    exists R. split; [exact HR0|]. split; [left; exact Herr|]. split; [discriminate|].
    apply FutHeader; fl_simpl; try assumption. reflexivity.
Qed.

(* ---- readRawData ------------------------------------------------------------------------------------ *)
Lemma raw_step bf st R out fl r n :
  p_buffered (f_rd st) = bf -> WInv2 (f_dict st) out fl ->
  f_err st = None -> f_step st = StRaw -> f_stepState st = false ->
  BIs data 0 R (f_rd st) -> (R mod 8 = 0)%nat ->
  f_blkLen st = Z.of_nat n -> (0 < n)%nat ->
  blk_cont (f_last st) (run (Flate.Spec.raw_bytes n) (sigma data R out)) r ->
  step_out bf st R out fl r (read_raw_data st).
Proof.
  intros Hbf HW Herr Hstep Hss HB Hal Hblk Hn Hcont.
  pose proof (w2_wr _ _ _ HW) as Hwr. pose proof (w2_avail _ _ _ HW) as Hav.
  pose proof (BIs_range data Hd 0 R _ HB) as HRr.
  assert (HR0 : (R <= nbits data)%nat) by lia.
  unfold read_raw_data. unfold mbind at 1. unfold mget at 1.
  replace (slice_ok (d_len (f_dict st)) (d_wr (f_dict st)) (d_len (f_dict st))) with true
    by (unfold slice_ok; lia).
  cbn [negb]. unfold avail_size in Hav. rewrite Hblk.
  set (k := if (Z.of_nat n <? d_len (f_dict st) - d_wr (f_dict st))%Z
            then Z.of_nat n else (d_len (f_dict st) - d_wr (f_dict st))%Z).
  assert (Hk : (0 <= k)%Z /\ (k <= Z.of_nat n)%Z /\ (k <= avail_size (f_dict st))%Z /\
               (k = 0%Z -> avail_size (f_dict st) = 0%Z)).
  { unfold k, avail_size. destruct (Z.of_nat n <? d_len (f_dict st) - d_wr (f_dict st))%Z eqn:E; lia. }
  destruct Hk as (Hk0 & Hkn & Hka & Hkz).
  replace (k <? 0)%Z with false by lia.
  pose proof (read_raw_sim data Hd R (f_rd st) (Z.to_nat k) HB Hal) as Hr.
  destruct (read_raw (f_rd st) (Z.to_nat k)) as [[bs e] p'].
  destruct Hr as (Hlen & Hbs & He & He1 & He0 & Hex & HB' & Hbf').
  set (m := length bs) in *.
  assert (Hzl : zlen bs = Z.of_nat m) by reflexivity.
  unfold mbind at 1. unfold mupd at 1.
  set (st1 := set_blkLen (set_rd st p') (f_blkLen st - zlen bs)%Z).
  unfold mbind at 1.
  assert (HW1 : WInv2 (f_dict st1) out fl) by exact HW.
  destruct (w2_write_raw (f_dict st1) out fl bs HW1) as (dc' & Ew & HW' & Hav').
  { unfold st1. fl_simpl. rewrite Hzl. lia. }
  unfold m_dict at 1. rewrite Ew.
  set (st2 := set_dict st1 dc').
  (* the bytes read are the next bytes of the data *)
  assert (Hfit : (R / 8 + m <= length data)%nat).
  { assert (HL : length bs = length (firstn m (skipn (R / 8) data))) by (rewrite <- Hbs; reflexivity).
    rewrite firstn_length, skipn_length in HL. fold m in HL. unfold nbits in HR0. lia. }
  assert (Hspec : run (Flate.Spec.raw_bytes n) (sigma data R out) =
                  run (Flate.Spec.raw_bytes (n - m)) (sigma data (R + 8 * m) (out ++ bs))).
  { replace n with (m + (n - m))%nat at 1 by lia.
    rewrite raw_bytes_split, (run_raw_bytes data Hd R out m Hal Hfit), <- Hbs. reflexivity. }
  unfold mbind at 1.
  destruct He as [-> | ->].
  - (* no error from the source *)
    cbn [N.eqb]. unfold ret at 1. unfold mbind at 1. unfold mget at 1.
    assert (Hb2 : f_blkLen st2 = (Z.of_nat n - Z.of_nat m)%Z) by (unfold st2, st1; fl_simpl; rewrite Hblk; reflexivity).
    rewrite Hb2.
    destruct (0 <? Z.of_nat n - Z.of_nat m)%Z eqn:Erem.
    + (* more to come: flush and continue *)
      assert (HW2 : WInv2 (f_dict st2) (out ++ bs) fl) by exact HW'.
      destruct (m_flush_to_read_ok st2 (out ++ bs) fl HW2) as (dc2 & Ef & HWf & Havf).
      unfold mbind at 1. rewrite Ef. unfold mupd.
      eapply (SO_ok _ _ _ _ _ _ _ (R + 8 * m)%nat (out ++ bs) (zlen (out ++ bs))); [| | | | | | apply prefix_of_app].
      * unfold st2, st1. fl_simpl. repeat split. exact Hbf'.
      * fl_simpl. exact HWf.
      * right. fl_simpl. split; reflexivity.
      * fl_simpl. destruct m as [|m'] eqn:Em.
        -- right; left. apply (w2_pending dc' (out ++ bs) fl HW').
           rewrite Hav'. unfold st1. fl_simpl. rewrite Hzl.
           assert (Hk00 : Z.to_nat k = O).
           { apply He0; [reflexivity|]. destruct bs; [reflexivity|discriminate]. }
           rewrite Hkz by lia. lia.
        -- left. lia.
      * left. unfold st2, st1. fl_simpl. exact Herr.
      * apply (FutRaw _ _ _ _ _ (n - m)%nat); unfold st2, st1; fl_simpl.
        -- exact Herr.
        -- reflexivity.
        -- exact Hss.
        -- exact HB'.
        -- lia.
        -- rewrite Hblk, Hzl. lia.
        -- lia.
        -- rewrite <- Hspec. exact Hcont.
    + (* the block is complete *)
      assert (Hmn : m = n) by lia.
      rewrite Hspec in Hcont. replace (n - m)%nat with O in Hcont by lia.
      cbn [Flate.Spec.raw_bytes run blk_cont] in Hcont.
      destruct Hcont as (R1 & out1 & Esig & HR1 & Haft).
      destruct (sigma_inj _ _ _ _ Esig) as [<- <-].
      assert (Hl2 : f_last st2 = f_last st) by reflexivity.
      assert (Herr2 : f_err st2 = None) by exact Herr.
      assert (Hss2 : f_stepState st2 = false) by exact Hss.
      assert (HB2 : BIs data 0 (R + 8 * m) (f_rd st2)) by exact HB'.
      assert (HW2 : WInv2 (f_dict st2) (out ++ bs) fl) by exact HW'.
      assert (Haft2 : after_block (f_last st2) (R + 8 * m) (out ++ bs) r) by (rewrite Hl2; exact Haft).
      assert (Hlt : (R < R + 8 * m)%nat) by lia.
      destruct (finish_block_ok bf st2 R (R + 8 * m)%nat (out ++ bs) fl r Herr2 Hss2 HB2 HR1 HW2 Haft2 Hlt)
        as (st' & Efb & (F1 & F2 & F3) & Fd & Ft & Fs & R' & HR' & Herr' & _ & HF).
      rewrite Efb.
      eapply (SO_ok _ _ _ _ _ _ st' R' (out ++ bs) fl); [| | | | | | apply prefix_of_app].
      * unfold st2, st1 in *. fl_simpl. repeat split; congruence.
      * rewrite Fd. exact HW'.
      * left. split; [rewrite Ft; reflexivity | reflexivity].
      * left. exact HR'.
      * exact Herr'.
      * exact HF.
  - (* io.EOF from the source: io.ErrUnexpectedEOF *)
    destruct (He1 eq_refl) as [Hnil Hexh].
    replace (1 =? 0) with false by reflexivity. replace (1 =? 1) with true by reflexivity.
    unfold throw.
    apply (SO_fail _ _ _ _ _ _ st2 EUEOF out); [| | | | | | | apply prefix_of_refl].
    + left; reflexivity.
    + reflexivity.
    + reflexivity.
    + assert (Eo : out ++ bs = out) by (rewrite Hnil; apply app_nil_r). rewrite <- Eo. exact HW'.
    + reflexivity.
    + exists 0, (R + 8 * m)%nat. exact HB'.
    + left. cbn [err_wrap].
      pose proof (run_raw_bytes_eof data Hd R out n Hal HR0 ltac:(lia)) as Hf.
      rewrite skipn_all2 in Hf by lia. rewrite app_nil_r in Hf.
      destruct Hf as (s' & Ef & Ho). rewrite Ef in Hcont. cbn [blk_cont] in Hcont.
      exists s'. split; assumption.
Qed.

(* ---- readBlockHeader -------------------------------------------------------------------------------- *)
(* the block data part of the specification's one_block *)
Definition Xp (typ : N) : prog unit :=
  if typ =? 0 then
    AlignP (fun _ =>
      bind (Flate.Spec.rbits 16) (fun n => bind (Flate.Spec.rbits 16) (fun nn =>
      bind (assert_p (N.lxor n nn =? 65535) ECorrupted) (fun _ =>
      if n =? 0 then Yield (Ret tt) else Flate.Spec.raw_bytes (N.to_nat n)))))
  else if typ =? 1 then loop D (Flate.Spec.block_body Flate.Spec.fixedLitTree Flate.Spec.fixedDistTree) tt
  else if typ =? 2 then
    bind Flate.Spec.read_prefix_codes (fun ts => loop D (Flate.Spec.block_body (fst ts) (snd ts)) tt)
  else Throw ECorrupted.

Lemma one_block_unfold :
  Flate.Spec.one_block D =
  bind (Flate.Spec.rbits 1) (fun last => bind (Flate.Spec.rbits 2) (fun typ =>
  bind (Xp typ) (fun _ => Ret (last =? 1)))).
Proof. reflexivity. Qed.

Lemma sbody_after_hdr s lastv typ s1 s2 :
  run (Flate.Spec.rbits 1) s = Done lastv s1 -> run (Flate.Spec.rbits 2) s1 = Done typ s2 ->
  run (sbody tt) s = tail_of (lastv =? 1) (run (Xp typ) s2).
Proof.
  intros E1 E2. unfold Flate.Spec.stream_body. rewrite run_bind, one_block_unfold.
  rewrite run_bind, E1, run_bind, E2, run_bind.
  destruct (run (Xp typ) s2) as [u s3|e s3]; cbn [tail_of run]; [|reflexivity].
  destruct (lastv =? 1); reflexivity.
Qed.

Lemma blk_loop_loops tl td s : Flate.Fuel.nonleaf tl -> (ilen s < 2 ^ D)%nat ->
  loops (Flate.Spec.block_body tl td) tt s (run (loop D (Flate.Spec.block_body tl td) tt) s).
Proof.
  intros Hnl Hs. apply loop_loops. intros Hef.
  assert (NF : nofuel (2 ^ D) (loop D (Flate.Spec.block_body tl td) tt)).
  { apply nofuel_loop.
    - intros u. apply Flate.Fuel.nf_block_body.
    - intros u. apply Flate.Fuel.eats_block_body. exact Hnl.
    - lia. }
  pose proof (nofuel_elim _ _ s NF Hs) as H.
  destruct (run (loop D (Flate.Spec.block_body tl td) tt) s) as [a s'|e s']; [exact Hef|].
  destruct e; try exact Hef. apply H. reflexivity.
Qed.

Lemma ilen_sigma R out : ilen (sigma data R out) = (nbits data - R)%nat.
Proof. unfold ilen, sigma. cbn [a_in]. rewrite skipn_length, sbits_len. reflexivity. Qed.

Lemma sigma_shape {A} (p : prog A) R out : (R <= nbits data)%nat ->
  forall u s1, run p (sigma data R out) = Done u s1 ->
    exists R1 out1, s1 = sigma data R1 out1 /\ (R1 <= nbits data)%nat.
Proof.
  intros HR u s1 E. destruct (run_sigma_done data p R out u s1 HR E) as (R1 & out1 & E1 & _ & H2 & _).
  exists R1, out1. split; assumption.
Qed.

Lemma loops_shape {St Rt} (body : St -> prog (St + Rt)) st R out rb : (R <= nbits data)%nat ->
  loops body st (sigma data R out) rb ->
  forall u s1, rb = Done u s1 -> exists R1 out1, s1 = sigma data R1 out1 /\ (R1 <= nbits data)%nat.
Proof.
  intros HR HL u s1 ->. pose proof (loops_sigma_mono data body st _ _ HL R out eq_refl HR) as H.
  cbn beta iota in H. destruct H as (R1 & out1 & E1 & _ & H2 & _). exists R1, out1. split; assumption.
Qed.

(* what ReadPrefixCodes does (Flate/ImplHeader.v), as a hypothesis of this section *)
Definition prefix_codes_ok : Prop := forall st R out,
  BIs data 0 R (f_rd st) -> f_trees st = TDyn ->
  let r := run Flate.Spec.read_prefix_codes (sigma data R out) in
  match Flate.Impl.read_prefix_codes st with
  | (ROk _, st') =>
      exists R' tl td ks,
        r = Done (tl, td) (sigma data R' out) /\ (R <= R')%nat /\
        BIs data 0 R' (f_rd st') /\ BlockCfg data st' tl td ks /\ hdr_frame st st' /\
        p_buffered (f_rd st') = p_buffered (f_rd st) /\
        d_minBits (ds_dec (f_pd1 st')) <= 57 /\ d_minBits (ds_dec (f_pd2 st')) <= 57
  | (RThrow e, st') =>
      (e = EUEOF \/ e = ECorrupted \/ e = EInvalid) /\ fails (err_wrap e) out r /\ hdr_frame st st' /\
      (exists k R', BIs data k R' (f_rd st'))
  end.
Hypothesis HPC : prefix_codes_ok.

(* one ReadBits against the specification, from a BIs 0 state *)
Lemma m_read_bits_sim st R out nb : BIs data 0 R (f_rd st) -> nb <= 57 ->
  match m_read_bits nb st with
  | (ROk v, st') =>
      st' = set_rd st (f_rd st') /\ v = sval data R nb /\ (R + N.to_nat nb <= nbits data)%nat /\
      run (Flate.Spec.rbits nb) (sigma data R out) = Done v (sigma data (R + N.to_nat nb) out) /\
      BIs data 0 (R + N.to_nat nb) (f_rd st') /\ p_buffered (f_rd st') = p_buffered (f_rd st)
  | (RThrow e, st') =>
      e = EUEOF /\ st' = set_rd st (f_rd st') /\
      fails EUEOF out (run (Flate.Spec.rbits nb) (sigma data R out)) /\
      (exists k, BIs data k R (f_rd st'))
  end.
Proof.
  intros HB Hnb. rewrite m_read_bits_eq.
  pose proof (read_bits_sim data Hd 0 R (f_rd st) nb HB Hnb) as Hs.
  pose proof (BIs_range data Hd 0 R _ HB) as HRr.
  destruct (read_bits (f_rd st) nb) as [[v|] p'] eqn:E; cbn [fst snd].
  - destruct Hs as (Hfit & Hv & HB' & Hbf). fl_simpl.
    split; [reflexivity|]. split; [exact Hv|]. split; [exact Hfit|].
    split; [rewrite Hv; apply (run_rbits data Hd); exact Hfit|]. split; assumption.
  - fl_simpl. split; [reflexivity|]. split; [reflexivity|]. split.
    + apply (run_rbits_eof data Hd); lia.
    + apply (HBF 0 R (f_rd st) nb p' HB Hnb). left. exact E.
Qed.

Lemma fails_bind {A B} e out (p : prog A) (f : A -> prog B) s :
  fails e out (run p s) -> fails e out (run (bind p f) s).
Proof. intros (s' & E & Ho). exists s'. rewrite run_bind, E. split; [reflexivity | exact Ho]. Qed.

Lemma set_rd_toRead st p : f_toRead (set_rd st p) = f_toRead st. Proof. reflexivity. Qed.

(* ---- the fixed tables ----------------------------------------------------------------------------- *)
Lemma fixed_syms_small (f : N -> N) n s l :
  In (s, l) (map (fun i => let s := N.of_nat i in (s, f s)) (seq 0 n)) -> s < N.of_nat n.
Proof.
  intros H. apply in_map_iff in H. destruct H as (i & E & Hi). apply in_seq in Hi.
  cbv zeta in E. inversion E; subst. lia.
Qed.

Lemma fixed_cfg st : f_trees st = TFixed ->
  BlockCfg data st Flate.Spec.fixedLitTree Flate.Spec.fixedDistTree 0 /\ MinOK st.
Proof.
  intros Ht.
  destruct fixed_lit_tables as (dl & El & L2 & Lnd & Lp & Lc & LM & Lt & LV & LZ & LT & Lmin & Lin).
  destruct fixed_dist_tables as (dd & Ed & D2 & Dnd & Dp & Dc & DM & Dt & DV & DZ & DT & Dmin).
  assert (Ls : forall s l, In (s, l) Flate.Spec.fixedLitLens -> s < 2 ^ 27).
  { intros s l H. unfold Flate.Spec.fixedLitLens in H.
    pose proof (fixed_syms_small (fun s => if s <? 144 then 8 else if s <? 256 then 9 else if s <? 280 then 7 else 8) 288 s l H).
    lia. }
  assert (Ds : forall s l, In (s, l) Flate.Spec.fixedDistLens -> s < 2 ^ 27).
  { intros s l H. unfold Flate.Spec.fixedDistLens in H.
    apply in_map_iff in H. destruct H as (i & E & Hi). apply in_seq in Hi. inversion E; subst. lia. }
  assert (Din : In (0, 5) Flate.Spec.fixedDistLens) by (left; reflexivity).
  pose proof (canon_len_bounds _ 256 7 L2 Lin) as [Lb1 Lb2].
  pose proof (canon_len_bounds _ 0 5 D2 Din) as [Db1 Db2].
  assert (Lmb : min_bits (DecCanonThms.canon_codes Flate.Spec.fixedLitLens) = 7).
  { rewrite <- (DecTableThms.to_min _ _ LT). exact Lmin. }
  assert (Dmb : min_bits (DecCanonThms.canon_codes Flate.Spec.fixedDistLens) = 5).
  { rewrite <- (DecTableThms.to_min _ _ DT). exact Dmin. }
  split.
  - exists dl, dd, 7, 5, false, (len_of Flate.Spec.fixedLitLens), (len_of Flate.Spec.fixedDistLens).
    unfold lit_tree, dist_tree. rewrite Ht, El, Ed. cbn [of_ires].
    split; [reflexivity|]. split; [reflexivity|].
    split.
    { rewrite Lt. rewrite <- (set_min_bits_id dl), Lmin.
      apply (symok_code data Hd _ L2 Lnd Lp Lc LM Ls LV LZ dl LT 7); try lia; intros _; lia. }
    split.
    { rewrite Dt. rewrite <- (set_min_bits_id dd), Dmin.
      apply (symok_code data Hd _ D2 Dnd Dp Dc DM Ds DV DZ dd DT 5); try lia; intros _; lia. }
    split.
    { rewrite Lt. apply (treelen_code data Hd _ L2 Lnd Lp Lc LM Ls LV 7 ltac:(lia) ltac:(lia) false).
      intros _. lia. }
    split; [left; split; reflexivity | discriminate].
  - intros d [H|H].
    + unfold lit_tree in H. rewrite Ht, El in H. cbn [of_ires] in H. inversion H; subst. lia.
    + unfold dist_tree in H. rewrite Ht, Ed in H. cbn [of_ires] in H. inversion H; subst. lia.
Qed.

Lemma cfg_frame st st' tl td ks :
  f_trees st' = f_trees st -> f_pd1 st' = f_pd1 st -> f_pd2 st' = f_pd2 st ->
  p_buffered (f_rd st') = p_buffered (f_rd st) ->
  BlockCfg data st tl td ks -> BlockCfg data st' tl td ks.
Proof.
  intros H1 H2 H3 H4 (lt & dt & ml & md & dv & lenfl & lenfd & A1 & A2 & A3).
  exists lt, dt, ml, md, dv, lenfl, lenfd. unfold lit_tree, dist_tree in *.
  rewrite H1, H2, H3, H4. exact (conj A1 (conj A2 A3)).
Qed.

Lemma minok_frame st st' :
  f_trees st' = f_trees st -> f_pd1 st' = f_pd1 st -> f_pd2 st' = f_pd2 st ->
  MinOK st -> MinOK st'.
Proof.
  intros H1 H2 H3 HM d Hd'. apply HM. unfold lit_tree, dist_tree in *. rewrite H1, H2, H3 in Hd'. exact Hd'.
Qed.

Lemma c1_57 : 1 <= 57. Proof. lia. Qed.
Lemma c2_57 : 2 <= 57. Proof. lia. Qed.
Lemma c16_57 : 16 <= 57. Proof. lia. Qed.
Lemma pad_aligned R : ((R + pad R) mod 8 = 0)%nat.
Proof. unfold pad. pose proof (Nat.mod_upper_bound R 8). lia. Qed.
Lemma add32_aligned R : (R mod 8 = 0)%nat -> ((R + N.to_nat 16 + N.to_nat 16) mod 8 = 0)%nat.
Proof. intros H. change (N.to_nat 16) with 16%nat. lia. Qed.

(* ---- readBlockHeader: the step ----------------------------------------------------------------------- *)
Lemma fails_tail last e out (rb : result unit) :
  fails e out rb -> fails e out (tail_of last rb).
Proof. intros (s' & -> & Ho). exists s'. split; [reflexivity | exact Ho]. Qed.

Lemma header_step bf st R out fl r :
  p_buffered (f_rd st) = bf -> WInv2 (f_dict st) out fl ->
  f_err st = None -> f_step st = StHeader -> f_stepState st = false -> BIs data 0 R (f_rd st) ->
  loops sbody tt (sigma data R out) r ->
  step_out bf st R out fl r (read_block_header st).
Proof.
  intros Hbf HW Herr Hstep Hss HB HL.
  pose proof (BIs_range data Hd 0 R _ HB) as HRr.
  assert (HR0 : (R <= nbits data)%nat) by lia.
  unfold read_block_header. unfold mbind at 1.
  pose proof (m_read_bits_sim st R out 1 HB c1_57) as H1.
  destruct (m_read_bits 1 st) as [[lastv|e] sa].
  2:{ (* no block header *)
    destruct H1 as (-> & Esa & Hf & (k & Hk)).
    assert (Fr : f_inOff sa = f_inOff st /\ f_outOff sa = f_outOff st /\ f_dict sa = f_dict st /\
                 f_toRead sa = f_toRead st) by (rewrite Esa; repeat split).
    destruct Fr as (Fr1 & Fr2 & Fr3 & Fr4).
    apply (SO_fail _ _ _ _ _ _ sa EUEOF out);
      [left; reflexivity | exact Fr1 | exact Fr2 | rewrite Fr3; exact HW | exact Fr4
      | exists k, R; exact Hk | | apply prefix_of_refl].
    left. cbn [err_wrap]. destruct Hf as (s' & Ef & Ho). exists s'. split; [|exact Ho].
    apply (loops_inv_fail _ _ _ _ _ _ HL).
    unfold Flate.Spec.stream_body. rewrite run_bind, one_block_unfold, run_bind, Ef. reflexivity. }
  destruct H1 as (Esa & Hv1 & Hfit1 & Hrun1 & HB1 & Hbf1).
  unfold mbind at 1. unfold mupd at 1.
  set (sb := set_last sa (lastv =? 1)).
  unfold mbind at 1.
  assert (HBb : BIs data 0 (R + N.to_nat 1) (f_rd sb)) by exact HB1.
  pose proof (m_read_bits_sim sb (R + N.to_nat 1) out 2 HBb c2_57) as H2.
  destruct (m_read_bits 2 sb) as [[typ|e] sc].
  2:{ destruct H2 as (-> & Esc & Hf & (k & Hk)).
    assert (Fr : f_inOff sc = f_inOff st /\ f_outOff sc = f_outOff st /\ f_dict sc = f_dict st /\
                 f_toRead sc = f_toRead st) by (rewrite Esc; unfold sb; rewrite Esa; repeat split).
    destruct Fr as (Fr1 & Fr2 & Fr3 & Fr4).
    apply (SO_fail _ _ _ _ _ _ sc EUEOF out);
      [left; reflexivity | exact Fr1 | exact Fr2 | rewrite Fr3; exact HW | exact Fr4
      | exists k, (R + N.to_nat 1)%nat; exact Hk | | apply prefix_of_refl].
    left. cbn [err_wrap]. destruct Hf as (s' & Ef & Ho). exists s'. split; [|exact Ho].
    apply (loops_inv_fail _ _ _ _ _ _ HL).
    unfold Flate.Spec.stream_body. rewrite run_bind, one_block_unfold, run_bind, Hrun1, run_bind, Ef.
    reflexivity. }
  destruct H2 as (Esc & Hv2 & Hfit2 & Hrun2 & HB2 & Hbf2).
  set (R2 := (R + N.to_nat 1 + N.to_nat 2)%nat) in *.
  pose proof (sbody_after_hdr _ _ _ _ _ Hrun1 Hrun2) as Hsb.
  clear Hv2.
  (* frame facts about sc *)
  assert (Fsc : f_inOff sc = f_inOff st /\ f_outOff sc = f_outOff st /\ f_dict sc = f_dict st /\
                f_toRead sc = f_toRead st /\ f_err sc = None /\ f_last sc = (lastv =? 1) /\
                f_stepState sc = f_stepState st /\ f_pd1 sc = f_pd1 st /\ f_pd2 sc = f_pd2 st /\
                p_buffered (f_rd sc) = bf).
  { assert (Hrb : f_rd sb = f_rd sa) by reflexivity.
    repeat split; try (rewrite Esc; unfold sb; rewrite Esa; fl_simpl; first [reflexivity | assumption]).
    rewrite Hbf2, Hrb, Hbf1. exact Hbf. }
  destruct Fsc as (F1 & F2 & F3 & F4 & F5 & F6 & F7 & F8 & F9 & F10).
  assert (HWc : WInv2 (f_dict sc) out fl) by (rewrite F3; exact HW).
  assert (HR2 : (R2 <= nbits data)%nat) by exact Hfit2.
  destruct (typ =? 0) eqn:E0.
  { (* stored block *)
    apply N.eqb_eq in E0. subst typ.
    unfold mbind at 1. rewrite m_read_pads_eq.
    destruct (read_pads_sim data Hd 0 R2 (f_rd sc) HB2) as (Hp1 & _ & HBp & Hbfp).
    set (sd := set_rd sc (snd (read_pads (f_rd sc)))).
    set (R3 := (R2 + pad R2)%nat).
    assert (HB3 : BIs data 0 R3 (f_rd sd)).
    { eapply (BIs_weaken data Hd); [|exact HBp]. rewrite N.sub_0_l. apply N.le_refl. }
    assert (Hal3 : (R3 mod 8 = 0)%nat) by apply pad_aligned.
    unfold mbind at 1.
    pose proof (m_read_bits_sim sd R3 out 16 HB3 c16_57) as H3.
    assert (HX : run (Xp 0) (sigma data R2 out) =
                 run (bind (Flate.Spec.rbits 16) (fun n => bind (Flate.Spec.rbits 16) (fun nn =>
                      bind (assert_p (N.lxor n nn =? 65535) ECorrupted) (fun _ =>
                      if n =? 0 then Yield (Ret tt) else Flate.Spec.raw_bytes (N.to_nat n)))))
                     (sigma data R3 out)).
    { unfold Xp. cbn [N.eqb]. rewrite (run_align data Hd R2 out _ HR2). reflexivity. }
    destruct (m_read_bits 16 sd) as [[n|e] se].
    2:{ destruct H3 as (-> & Ese & Hf & (k & Hk)).
      assert (Fr : f_inOff se = f_inOff st /\ f_outOff se = f_outOff st /\ f_dict se = f_dict sc /\
                   f_toRead se = f_toRead st).
      { rewrite Ese. unfold sd. fl_simpl. repeat split; congruence. }
      destruct Fr as (Fr1 & Fr2 & Fr3 & Fr4).
      apply (SO_fail _ _ _ _ _ _ se EUEOF out);
        [left; reflexivity | exact Fr1 | exact Fr2 | rewrite Fr3; exact HWc | exact Fr4
        | exists k, R3; exact Hk | | apply prefix_of_refl].
      left. cbn [err_wrap].
      assert (Hf' : fails EUEOF out (tail_of (lastv =? 1) (run (Xp 0) (sigma data R2 out)))).
      { apply fails_tail. rewrite HX. apply fails_bind. exact Hf. }
      destruct Hf' as (s' & Ef & Ho). exists s'. split; [|exact Ho].
      apply (loops_inv_fail _ _ _ _ _ _ HL). rewrite Hsb. exact Ef. }
    destruct H3 as (Ese & Hvn & Hfit3 & Hrun3 & HB4 & Hbf4).
    set (R4 := (R3 + N.to_nat 16)%nat) in *.
    unfold mbind at 1.
    pose proof (m_read_bits_sim se R4 out 16 HB4 c16_57) as H4.
    destruct (m_read_bits 16 se) as [[nn|e] sf].
    2:{ destruct H4 as (-> & Esf & Hf & (k & Hk)).
      assert (Fr : f_inOff sf = f_inOff st /\ f_outOff sf = f_outOff st /\ f_dict sf = f_dict sc /\
                   f_toRead sf = f_toRead st).
      { rewrite Esf, Ese. unfold sd. fl_simpl. repeat split; congruence. }
      destruct Fr as (Fr1 & Fr2 & Fr3 & Fr4).
      apply (SO_fail _ _ _ _ _ _ sf EUEOF out);
        [left; reflexivity | exact Fr1 | exact Fr2 | rewrite Fr3; exact HWc | exact Fr4
        | exists k, R4; exact Hk | | apply prefix_of_refl].
      left. cbn [err_wrap].
      assert (Hf' : fails EUEOF out (tail_of (lastv =? 1) (run (Xp 0) (sigma data R2 out)))).
      { apply fails_tail. rewrite HX, run_bind, Hrun3. apply fails_bind. exact Hf. }
      destruct Hf' as (s' & Ef & Ho). exists s'. split; [|exact Ho].
      apply (loops_inv_fail _ _ _ _ _ _ HL). rewrite Hsb. exact Ef. }
    destruct H4 as (Esf & Hvnn & Hfit4 & Hrun4 & HB5 & Hbf5).
    set (R5 := (R4 + N.to_nat 16)%nat) in *.
    assert (Hn16 : n mod 65536 = n).
    { apply N.mod_small. rewrite Hvn. apply (sval_lt data R3 16). }
    assert (Hnn16 : nn mod 65536 = nn).
    { apply N.mod_small. rewrite Hvnn. apply (sval_lt data R4 16). }
    rewrite Hn16, Hnn16.
    assert (HX2 : run (Xp 0) (sigma data R2 out) =
                  run (bind (assert_p (N.lxor n nn =? 65535) ECorrupted) (fun _ =>
                       if n =? 0 then Yield (Ret tt) else Flate.Spec.raw_bytes (N.to_nat n)))
                      (sigma data R5 out)).
    { rewrite HX, run_bind, Hrun3, run_bind, Hrun4. reflexivity. }
    (* frame facts about sf *)
    assert (Fsf : f_inOff sf = f_inOff st /\ f_outOff sf = f_outOff st /\ f_dict sf = f_dict st /\
                  f_toRead sf = f_toRead st /\ f_err sf = None /\ f_last sf = (lastv =? 1) /\
                  f_stepState sf = f_stepState st /\ p_buffered (f_rd sf) = bf).
    { assert (Hrd : f_rd sd = snd (read_pads (f_rd sc))) by reflexivity.
      repeat split; try (rewrite Esf, Ese; unfold sd; fl_simpl; first [reflexivity | assumption]).
      rewrite Hbf5, Hbf4, Hrd, Hbfp. exact F10. }
    destruct Fsf as (G1 & G2 & G3 & G4 & G5 & G6 & G7 & G8).
    assert (HR5 : (R5 <= nbits data)%nat) by exact Hfit4.
    assert (Hal5 : (R5 mod 8 = 0)%nat) by (apply add32_aligned; exact Hal3).
    destruct (N.lxor n nn =? 65535) eqn:Ex; cbn [negb].
    2:{ (* LEN / NLEN mismatch *)
      apply (SO_fail _ _ _ _ _ _ sf ECorrupted out); try assumption; try apply prefix_of_refl.
      - right; left; reflexivity.
      - rewrite G3. exact HW.
      - exists 0, R5. exact HB5.
      - left. cbn [err_wrap].
        assert (Hf' : fails ECorrupted out (tail_of (lastv =? 1) (run (Xp 0) (sigma data R2 out)))).
        { apply fails_tail. rewrite HX2. cbn [assert_p bind run]. eexists. split; reflexivity. }
        destruct Hf' as (s' & Ef & Ho). exists s'. split; [|exact Ho].
        apply (loops_inv_fail _ _ _ _ _ _ HL). rewrite Hsb. exact Ef. }
    cbn [assert_p bind] in HX2.
    unfold mbind at 1. unfold mupd at 1.
    set (sg := set_blkLen sf (Z.of_N n)).
    destruct (n =? 0) eqn:En.
    - (* empty stored block: flush, finishBlock *)
      rewrite (run_yield data Hd) in HX2. cbn [run] in HX2.
      assert (HWg : WInv2 (f_dict sg) out fl) by (unfold sg; fl_simpl; rewrite G3; exact HW).
      destruct (m_flush_to_read_ok sg out fl HWg) as (dc2 & Ef & HWf & Havf).
      unfold mbind at 1. rewrite Ef.
      set (sh := set_toRead (set_dict sg dc2) (zskipn fl out)).
      assert (Hcont : blk_cont (lastv =? 1) (Done tt (sigma data R5 out)) r).
      { apply (cont_of_loops _ _ _ _ HL).
        - rewrite Hsb, HX2. reflexivity.
        - intros u s1 E. inversion E; subst. exists R5, out. split; [reflexivity | exact HR5]. }
      cbn [blk_cont] in Hcont. destruct Hcont as (Rx & outx & Esig & _ & Haft).
      destruct (sigma_inj _ _ _ _ Esig) as [<- <-].
      assert (Hh1 : f_err sh = None) by (unfold sh, sg; fl_simpl; exact G5).
      assert (Hh0 : f_stepState sh = false) by (unfold sh, sg; fl_simpl; rewrite G7; exact Hss).
      assert (Hh2 : BIs data 0 R5 (f_rd sh)) by exact HB5.
      assert (Hh3 : WInv2 (f_dict sh) out (zlen out)) by exact HWf.
      assert (Hh4 : after_block (f_last sh) R5 out r) by (unfold sh, sg; fl_simpl; rewrite G6; exact Haft).
      assert (Hh5 : (R < R5)%nat) by (clear; unfold R5, R4, R3, R2; lia).
      destruct (finish_block_ok bf sh R R5 out (zlen out) r Hh1 Hh0 Hh2 HR5 Hh3 Hh4 Hh5)
        as (st' & Efb & (K1 & K2 & K3) & Kd & Kt & Ks & R' & HR' & Herr' & _ & HF).
      rewrite Efb.
      eapply (SO_ok _ _ _ _ _ _ st' R' out (zlen out)); [| | | | | | apply prefix_of_refl].
      + unfold io_frame. rewrite K1, K2, K3. unfold sh, sg. fl_simpl.
        split; [exact G1|]. split; [exact G2|]. rewrite G8. symmetry. exact Hbf.
      + rewrite Kd. exact HWf.
      + right. split; [rewrite Kt; reflexivity | reflexivity].
      + left. exact HR'.
      + exact Herr'.
      + exact HF.
    - (* stored data follows *)
      unfold mupd.
      assert (Hcont : blk_cont (lastv =? 1)
                        (run (Flate.Spec.raw_bytes (N.to_nat n)) (sigma data R5 out)) r).
      { apply (cont_of_loops _ _ _ _ HL).
        - rewrite Hsb, HX2. reflexivity.
        - apply sigma_shape. exact HR5. }
      eapply (SO_ok _ _ _ _ _ _ _ R5 out fl); [| | | | | | apply prefix_of_refl].
      + unfold io_frame, sg. fl_simpl. split; [exact G1|]. split; [exact G2|]. rewrite G8. symmetry. exact Hbf.
      + unfold sg. fl_simpl. rewrite G3. exact HW.
      + left. unfold sg. fl_simpl. split; [exact G4 | reflexivity].
      + left. clear. unfold R5, R4, R3, R2. lia.
      + left. unfold sg. fl_simpl. exact G5.
      + apply (FutRaw _ _ _ _ _ (N.to_nat n)); unfold sg; fl_simpl.
        * exact G5.
        * reflexivity.
        * rewrite G7. exact Hss.
        * exact HB5.
        * exact Hal5.
        * clear. lia.
        * clear - En. lia.
        * rewrite G6. exact Hcont. }
  destruct (typ =? 1) eqn:E1.
  { (* fixed Huffman block *)
    apply N.eqb_eq in E1. subst typ. unfold mupd.
    set (sd := set_step (set_trees sc TFixed) StBlock).
    destruct (fixed_cfg sd eq_refl) as [HC HM].
    set (rb := run (loop D (Flate.Spec.block_body Flate.Spec.fixedLitTree Flate.Spec.fixedDistTree) tt)
                   (sigma data R2 out)).
    assert (HLb : loops (Flate.Spec.block_body Flate.Spec.fixedLitTree Flate.Spec.fixedDistTree) tt
                        (sigma data R2 out) rb).
    { apply blk_loop_loops; [exact Flate.Fuel.fixedLit_nonleaf|]. rewrite ilen_sigma. clear - HD. lia. }
    assert (Hcont : blk_cont (lastv =? 1) rb r).
    { apply (cont_of_loops _ _ _ _ HL).
      - rewrite Hsb. reflexivity.
      - apply (loops_shape _ _ _ _ _ HR2 HLb). }
    eapply (SO_ok _ _ _ _ _ _ sd R2 out fl); [| | | | | | apply prefix_of_refl].
    + unfold io_frame, sd. fl_simpl. split; [exact F1|]. split; [exact F2|]. rewrite F10. symmetry. exact Hbf.
    + unfold sd. fl_simpl. exact HWc.
    + left. unfold sd. fl_simpl. split; [exact F4 | reflexivity].
    + left. clear. unfold R2. lia.
    + left. unfold sd. fl_simpl. exact F5.
    + apply (FutBlock _ _ _ _ _ Flate.Spec.fixedLitTree Flate.Spec.fixedDistTree 0 rb); unfold sd; fl_simpl.
      * exact F5.
      * reflexivity.
      * rewrite F7. exact Hss.
      * exact HC.
      * exact HM.
      * exact HB2.
      * exact HLb.
      * rewrite F6. exact Hcont. }
  destruct (typ =? 2) eqn:E2.
  { (* dynamic Huffman block *)
    apply N.eqb_eq in E2. subst typ.
    unfold mbind at 1. unfold mupd at 1.
    set (sd := set_trees sc TDyn).
    unfold mbind at 1.
    assert (HBd : BIs data 0 R2 (f_rd sd)) by exact HB2.
    pose proof (HPC sd R2 out HBd eq_refl) as Hp. cbv zeta in Hp.
    assert (HX : run (Xp 2) (sigma data R2 out) =
                 run (bind Flate.Spec.read_prefix_codes
                        (fun ts => loop D (Flate.Spec.block_body (fst ts) (snd ts)) tt))
                     (sigma data R2 out)) by reflexivity.
    destruct (Flate.Impl.read_prefix_codes sd) as [[u|e] se].
    2:{ destruct Hp as (He & Hf & Hfr & Hbis).
      destruct Hfr as (P1&P2&P3&P4&P5&P6&P7&P8&P9&P10&P11&P12).
      apply (SO_fail _ _ _ _ _ _ se e out); try assumption; try apply prefix_of_refl.
      - unfold sd in *. fl_simpl. congruence.
      - unfold sd in *. fl_simpl. congruence.
      - rewrite P11. unfold sd. fl_simpl. exact HWc.
      - rewrite P3. unfold sd. fl_simpl. exact F4.
      - left.
        assert (Hf' : fails (err_wrap e) out (tail_of (lastv =? 1) (run (Xp 2) (sigma data R2 out)))).
        { apply fails_tail. rewrite HX. apply fails_bind. exact Hf. }
        destruct Hf' as (s' & Ef & Ho). exists s'. split; [|exact Ho].
        apply (loops_inv_fail _ _ _ _ _ _ HL). rewrite Hsb. exact Ef. }
    destruct Hp as (R3 & tl & td & ks & Hrun & HR23 & HB3 & HC & Hfr & Hbf3 & Hm1 & Hm2).
    destruct Hfr as (P1&P2&P3&P4&P5&P6&P7&P8&P9&P10&P11&P12).
    unfold mupd.
    set (sf := set_step se StBlock).
    assert (Hnl : Flate.Fuel.nonleaf tl).
    { apply (post_elim _ _ _ _ _ Flate.Fuel.post_read_prefix_codes Hrun). }
    pose proof (BIs_range data Hd 0 R3 _ HB3) as HR3r.
    assert (HR3 : (R3 <= nbits data)%nat) by (clear - HR3r; lia).
    set (rb := run (loop D (Flate.Spec.block_body tl td) tt) (sigma data R3 out)).
    assert (HLb : loops (Flate.Spec.block_body tl td) tt (sigma data R3 out) rb).
    { apply blk_loop_loops; [exact Hnl|]. rewrite ilen_sigma. clear - HD. lia. }
    assert (Hcont : blk_cont (lastv =? 1) rb r).
    { apply (cont_of_loops _ _ _ _ HL).
      - rewrite Hsb, HX, run_bind, Hrun. reflexivity.
      - apply (loops_shape _ _ _ _ _ HR3 HLb). }
    assert (HC' : BlockCfg data sf tl td ks).
    { apply (cfg_frame se sf); try reflexivity. exact HC. }
    assert (HM' : MinOK sf).
    { intros d [H|H]; unfold lit_tree, dist_tree, sf in H; fl_simpl; rewrite P12 in H;
        unfold sd in H; fl_simpl; inversion H; subst; assumption. }
    eapply (SO_ok _ _ _ _ _ _ sf R3 out fl); [| | | | | | apply prefix_of_refl].
    + unfold io_frame, sf. fl_simpl. rewrite P1, P2, Hbf3. unfold sd. fl_simpl.
      split; [exact F1|]. split; [exact F2|]. rewrite F10. symmetry. exact Hbf.
    + unfold sf. fl_simpl. rewrite P11. unfold sd. fl_simpl. exact HWc.
    + left. unfold sf. fl_simpl. rewrite P3. unfold sd. fl_simpl. split; [exact F4 | reflexivity].
    + left. clear - HR23. unfold R2 in HR23. lia.
    + left. unfold sf. fl_simpl. rewrite P8. unfold sd. fl_simpl. exact F5.
    + destruct HC' as (lt0 & dt0 & ml0 & md0 & dv0 & lf0 & ld0 & Q1 & Q2 & Q3 & Q4 & Q5 & Q6 & Q7).
      assert (Hks0 : 0 <= ks) by apply N.le_0_l.
      apply (FutBlock _ _ _ _ _ tl td ks rb); unfold sf; fl_simpl.
      * rewrite P8. unfold sd. fl_simpl. exact F5.
      * reflexivity.
      * rewrite P10. unfold sd. fl_simpl. rewrite F7.
        (* stepState is stateInit at a block boundary *)
        exact Hss.
      * exists lt0, dt0, ml0, md0, dv0, lf0, ld0. exact (conj Q1 (conj Q2 (conj Q3 (conj Q4 (conj Q5 (conj Q6 Q7)))))).
      * exact HM'.
      * eapply (BIs_weaken data Hd); [exact Hks0 | exact HB3].
      * exact HLb.
      * rewrite P7. unfold sd. fl_simpl. rewrite F6. exact Hcont. }
  (* reserved block type *)
  unfold corrupted, throw.
  apply (SO_fail _ _ _ _ _ _ sc ECorrupted out); try assumption; try apply prefix_of_refl.
  - right; left; reflexivity.
  - exists 0, R2. exact HB2.
  - left. cbn [err_wrap].
    assert (Hf' : fails ECorrupted out (tail_of (lastv =? 1) (run (Xp typ) (sigma data R2 out)))).
    { apply fails_tail. unfold Xp. rewrite E0, E1, E2. cbn [run]. eexists. split; reflexivity. }
    destruct Hf' as (s' & Ef & Ho). exists s'. split; [|exact Ho].
    apply (loops_inv_fail _ _ _ _ _ _ HL). rewrite Hsb. exact Ef.
Qed.

End Steps.
