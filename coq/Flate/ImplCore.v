(* The window relation with the "room after a flush" clause, its preservation by the window
   operations, and the monadic wrappers of Flate/Impl.v over them. *)
From V Require Import Base.Prelude Window.Dict Window.DictSpec Window.DictThms.
From V Require Import Flate.Impl Flate.ImplRel Flate.ImplWin.
From Coq Require Import ZifyBool ZifyN ZifyNat.

Local Open Scope Z_scope.

(* nothing pending in the window => there is room (ReadFlush always leaves room, writes make
   something pending) *)
Definition WInv2 (dc : dd) (out : list byte) (fl : Z) : Prop :=
  WInv dc out fl /\ (fl = zlen out -> 0 < avail_size dc).

Lemma zlen_app' {A} (a b : list A) : zlen (a ++ b) = zlen a + zlen b.
Proof. unfold zlen. rewrite app_length. lia. Qed.

Lemma w2_avail dc out fl : WInv2 dc out fl -> 0 <= avail_size dc <= maxHistSize.
Proof. intros [H _]. apply (winv_avail _ _ _ H). Qed.

Lemma w2_fl dc out fl : WInv2 dc out fl -> 0 <= fl <= zlen out.
Proof. intros [H _]. apply (winv_fl _ _ _ H). Qed.

Lemma w2_hist dc out fl : WInv2 dc out fl -> hist_size dc = Z.min maxHistSize (zlen out).
Proof. intros [H _]. apply (winv_hist _ _ _ H). Qed.

Lemma w2_write_byte dc out fl c : WInv2 dc out fl -> 0 < avail_size dc ->
  exists dc', write_byte dc c = Ok dc' /\ WInv2 dc' (out ++ [c]) fl /\
              avail_size dc' = avail_size dc - 1.
Proof.
  intros [H H2] Ha. pose proof (winv_fl _ _ _ H) as Hfl.
  destruct (winv_write_byte dc out fl c H Ha) as (dc' & E & H' & Hav).
  exists dc'. split; [exact E|]. split; [|exact Hav]. split; [exact H'|].
  rewrite zlen_app'. unfold zlen at 2. cbn [length]. lia.
Qed.

Lemma w2_write_raw dc out fl bs : WInv2 dc out fl -> zlen bs <= avail_size dc ->
  exists dc', write_raw dc bs = Ok (zlen bs, dc') /\ WInv2 dc' (out ++ bs) fl /\
              avail_size dc' = avail_size dc - zlen bs.
Proof.
  intros [H H2] Ha. pose proof (winv_fl _ _ _ H) as Hfl.
  destruct (winv_write_raw dc out fl bs H Ha) as (dc' & E & H' & Hav).
  exists dc'. split; [exact E|]. split; [|exact Hav]. split; [exact H'|].
  rewrite zlen_app'. pose proof (zlen_nonneg' bs). intros Hx. rewrite Hav.
  assert (Hz : zlen bs = 0) by lia. rewrite Hz, Z.sub_0_r. apply H2. lia.
Qed.

Lemma w2_flush dc out fl : WInv2 dc out fl ->
  exists dc', read_flush dc = Ok (zskipn fl out, dc') /\ WInv2 dc' out (zlen out) /\
              0 < avail_size dc'.
Proof.
  intros [H _]. destruct (winv_flush dc out fl H) as (dc' & E & H' & Hav).
  exists dc'. split; [exact E|]. split; [|exact Hav]. split; [exact H'|]. intros _. exact Hav.
Qed.

Lemma lz_copy_0 out dist : lz_copy out dist 0 = out.
Proof. reflexivity. Qed.

Lemma w2_copy dc out fl dist len : WInv2 dc out fl ->
  0 < dist <= hist_size dc -> 0 <= len <= 65536 ->
  exists dc', copy_combo dc dist len = Ok (Z.min len (avail_size dc), dc') /\
    WInv2 dc' (lz_copy out dist (Z.to_nat (Z.min len (avail_size dc)))) fl /\
    avail_size dc' = avail_size dc - Z.min len (avail_size dc).
Proof.
  intros [H H2] Hd Hl. pose proof (winv_fl _ _ _ H) as Hfl. pose proof (winv_avail _ _ _ H) as Hav0.
  destruct (winv_copy dc out fl dist len H Hd Hl) as (dc' & E & H' & Hav).
  exists dc'. split; [exact E|]. split; [|exact Hav]. split; [exact H'|].
  rewrite lz_copy_len. intros Hx. rewrite Hav.
  assert (Hz : Z.min len (avail_size dc) = 0) by lia. rewrite Hz, Z.sub_0_r. apply H2. lia.
Qed.

(* ---- the monadic wrappers ------------------------------------------------------------------- *)
Lemma m_flush_to_read_ok st out fl : WInv2 (f_dict st) out fl ->
  exists dc', m_flush_to_read st = (ROk tt, set_toRead (set_dict st dc') (zskipn fl out)) /\
              WInv2 dc' out (zlen out) /\ 0 < avail_size dc'.
Proof.
  intros H. destruct (w2_flush _ _ _ H) as (dc' & E & H' & Hav).
  exists dc'. unfold m_flush_to_read. rewrite E. split; [reflexivity|]. split; assumption.
Qed.

Lemma m_write_byte_ok st out fl c : WInv2 (f_dict st) out fl -> 0 < avail_size (f_dict st) ->
  exists dc', m_write_byte c st = (ROk tt, set_dict st dc') /\ WInv2 dc' (out ++ [c]) fl /\
              avail_size dc' = avail_size (f_dict st) - 1.
Proof.
  intros H Ha. destruct (w2_write_byte _ _ _ c H Ha) as (dc' & E & H' & Hav).
  exists dc'. unfold m_write_byte, m_dict. rewrite E. split; [reflexivity|]. split; assumption.
Qed.

(* cnt0 <- TryWriteCopy; cnt <- if cnt0 = 0 then WriteCopy else cnt0 *)
Definition m_copy_combo (dist len : Z) : M Z :=
  mbind (m_dict (fun d => try_write_copy d dist len)) (fun cnt0 =>
    if (cnt0 =? 0)%Z then m_dict (fun d => write_copy d dist len) else ret cnt0).

Lemma m_copy_combo_ok st out fl dist len : WInv2 (f_dict st) out fl ->
  0 < dist <= hist_size (f_dict st) -> 0 <= len <= 65536 ->
  let cnt := Z.min len (avail_size (f_dict st)) in
  exists dc', m_copy_combo dist len st = (ROk cnt, set_dict st dc') /\
    WInv2 dc' (lz_copy out dist (Z.to_nat cnt)) fl /\
    avail_size dc' = avail_size (f_dict st) - cnt.
Proof.
  intros H Hd Hl cnt. destruct (w2_copy _ _ _ dist len H Hd Hl) as (dc' & E & H' & Hav).
  exists dc'. split; [|split; assumption].
  unfold copy_combo in E. unfold m_copy_combo, mbind, m_dict.
  destruct (try_write_copy (f_dict st) dist len) as [[cnt0 dc1]| | |] eqn:Et; try discriminate.
  destruct (cnt0 =? 0) eqn:E0.
  - cbn [f_dict set_dict]. replace (f_dict (set_dict st dc1)) with dc1 by (destruct st; reflexivity).
    rewrite E. destruct st; reflexivity.
  - unfold ret. inversion E; subst. reflexivity.
Qed.
