(* The sliding window "up to recycled storage": two dictDecoder states with the same scalar
   fields and backing arrays of the same capacity that agree on the part of the buffer that has
   been WRITTEN since Init (hist[:wrPos], or all of hist once the window has wrapped) behave
   the same under every operation the flate Reader performs, and stay related. The stale
   contents of a recycled buffer beyond that part are never read (WriteCopy: under the Reader's
   guarantee 0 <= dist <= HistSize). *)
From V Require Import Base.Prelude Window.Dict Window.DictSpec Window.DictThms.
From V Require Import Flate.Impl.
From Coq Require Import ZifyBool ZifyN ZifyNat.

Local Open Scope Z_scope.

(* ---- arrays that agree below V --------------------------------------------------------------- *)
Definition agree (V : Z) (a1 a2 : list byte) : Prop :=
  zlen a1 = zlen a2 /\ forall i, 0 <= i < V -> znth a1 i = znth a2 i.

Lemma agree_refl V a : agree V a a.
Proof. split; [reflexivity | intros; reflexivity]. Qed.

Lemma agree_le V V' a1 a2 : agree V a1 a2 -> V' <= V -> agree V' a1 a2.
Proof. intros [Hl H] Hle. split; [exact Hl | intros i Hi; apply H; lia]. Qed.

Lemma agree_asub V a1 a2 lo hi : agree V a1 a2 -> 0 <= lo <= hi -> hi <= V -> hi <= zlen a1 ->
  asub a1 lo hi = asub a2 lo hi.
Proof.
  intros [Hl H] Hlo Hhi Hcap. apply list_ext.
  - rewrite !zlen_asub by lia. reflexivity.
  - intros i Hi. rewrite zlen_asub in Hi by lia. rewrite !znth_asub by lia. apply H. lia.
Qed.

Lemma agree_blit V a1 a2 pos src : agree V a1 a2 -> 0 <= pos <= V -> pos + zlen src <= zlen a1 ->
  agree (Z.max V (pos + zlen src)) (blit a1 pos src) (blit a2 pos src).
Proof.
  intros [Hl H] Hp Hcap. pose proof (zlen_nonneg src) as Hs. split.
  - rewrite !zlen_blit by lia. exact Hl.
  - intros i Hi. rewrite !znth_blit by lia.
    destruct ((pos <=? i) && (i <? pos + zlen src)) eqn:E; [reflexivity|].
    apply H. lia.
Qed.

(* ---- related outcomes --------------------------------------------------------------------------- *)
Definition dres_rel {A B} (R : A -> B -> Prop) (r1 : dres A) (r2 : dres B) : Prop :=
  match r1, r2 with
  | Ok a, Ok b => R a b
  | Panic, Panic => True
  | Hang, Hang => True
  | Fuel, Fuel => True
  | _, _ => False
  end.

(* ---- the relation ---------------------------------------------------------------------------------- *)
Section Cap.
(* what is known of the capacity of the backing array: any property that survives the growth
   ReadFlush performs (cap -> min(size, 4 * cap)); [fun _ => True] for arbitrary Readers, the
   three capacities a Reader made by NewReader can have for reachable ones *)
Variable CapP : Z -> Prop.
Hypothesis CapP_grow : forall c, CapP c -> 0 <= c < maxHistSize -> CapP (Z.min maxHistSize (c * 4)).

(* the part of the buffer written since Init *)
Definition valid (d : dd) : Z := if d_full d then d_len d else d_wr d.

Record Dwf (d : dd) : Prop := mkDwf {
  w_size : d_size d = maxHistSize;
  w_wr0 : 0 <= d_wr d;
  w_wrlen : d_wr d <= d_len d;
  w_lensize : d_len d <= d_size d;
  w_lencap : d_len d <= zlen (d_arr d);
  (* the buffer has its final length, or the slice spans its whole backing array *)
  w_grow : d_len d = d_size d \/ zlen (d_arr d) = d_len d;
  w_cap : CapP (zlen (d_arr d))
}.

Record dict_eq (d1 d2 : dd) : Prop := mkDeq {
  de_size : d_size d1 = d_size d2;
  de_len : d_len d1 = d_len d2;
  de_wr : d_wr d1 = d_wr d2;
  de_rd : d_rd d1 = d_rd d2;
  de_full : d_full d1 = d_full d2;
  de_wf : Dwf d1;
  de_agree : agree (valid d1) (d_arr d1) (d_arr d2)
}.

Lemma dict_eq_hist d1 d2 : dict_eq d1 d2 -> hist_size d1 = hist_size d2.
Proof. intros [E1 E2 E3 E4 E5 _ _]. unfold hist_size. rewrite E1, E3, E5. reflexivity. Qed.

Lemma dict_eq_avail d1 d2 : dict_eq d1 d2 -> avail_size d1 = avail_size d2.
Proof. intros [E1 E2 E3 E4 E5 _ _]. unfold avail_size. rewrite E2, E3. reflexivity. Qed.

Lemma dwf_hist_wr d : Dwf d -> d_wr d <= hist_size d.
Proof. intros [H1 H2 H3 H4 H5 H6 H7]. unfold hist_size. destruct (d_full d); lia. Qed.

(* ---- Init ---------------------------------------------------------------------------------------------- *)
Lemma dd_init_eq a1 a2 : zlen a1 = zlen a2 -> CapP (zlen a1) ->
  exists d1 d2, dd_init maxHistSize (Some a1) = Ok d1 /\ dd_init maxHistSize (Some a2) = Ok d2 /\
                dict_eq d1 d2.
Proof.
  intros Hl Hcp. pose proof (zlen_nonneg a1) as H0. unfold dd_init. rewrite <- Hl.
  destruct (Z.ltb_spec maxHistSize (zlen a1)) as [Hlt|Hge].
  - assert (Hs : slice_ok (zlen a1) 0 maxHistSize = true).
    { unfold slice_ok, maxHistSize in *. lia. }
    rewrite Hs. eexists; eexists. split; [reflexivity|]. split; [reflexivity|].
    constructor; cbn [d_size d_len d_wr d_rd d_full d_arr]; try reflexivity.
    + constructor; cbn [d_size d_len d_wr d_rd d_full d_arr]; try exact Hcp; unfold maxHistSize in *; lia.
    + unfold valid. cbn [d_full d_wr]. split; [exact Hl | intros i Hi; lia].
  - eexists; eexists. split; [reflexivity|]. split; [reflexivity|].
    constructor; cbn [d_size d_len d_wr d_rd d_full d_arr]; try reflexivity.
    + constructor; cbn [d_size d_len d_wr d_rd d_full d_arr]; try exact Hcp; unfold maxHistSize in *; lia.
    + unfold valid. cbn [d_full d_wr]. split; [exact Hl | intros i Hi; lia].
Qed.

(* ---- WriteByte ------------------------------------------------------------------------------------------ *)
Lemma write_byte_eq d1 d2 c : dict_eq d1 d2 ->
  dres_rel (fun a b => dict_eq a b /\ hist_size d1 <= hist_size a) (write_byte d1 c) (write_byte d2 c).
Proof.
  intros [E1 E2 E3 E4 E5 [W1 W2 W3 W4 W5 W6 W7] HA]. unfold write_byte. rewrite <- E2, <- E3.
  destruct ((0 <=? d_wr d1) && (d_wr d1 <? d_len d1)) eqn:Eb; [|exact I].
  cbn [dres_rel]. rewrite <- E1, <- E4, <- E5.
  assert (Hz : zlen [c] = 1) by reflexivity.
  assert (Hb : d_wr d1 < d_len d1) by lia.
  assert (Hv : 0 <= d_wr d1 <= valid d1) by (unfold valid; destruct (d_full d1); lia).
  pose proof (agree_blit (valid d1) (d_arr d1) (d_arr d2) (d_wr d1) [c] HA Hv ltac:(lia)) as HB.
  split.
  - constructor; cbn [d_size d_len d_wr d_rd d_full d_arr]; try reflexivity.
    + constructor; cbn [d_size d_len d_wr d_rd d_full d_arr]; try lia;
        rewrite zlen_blit by lia; try lia; exact W7.
    + unfold valid in *. cbn [d_full d_len d_wr]. eapply agree_le; [exact HB|].
      destruct (d_full d1); lia.
  - unfold hist_size. cbn [d_full d_size d_wr]. destruct (d_full d1); lia.
Qed.

(* ---- WriteSlice / WriteMark ------------------------------------------------------------------------------ *)
Lemma write_raw_eq d1 d2 bs : dict_eq d1 d2 -> zlen bs <= d_len d1 - d_wr d1 ->
  dres_rel (fun a b => fst a = fst b /\ dict_eq (snd a) (snd b) /\ hist_size d1 <= hist_size (snd a))
           (write_raw d1 bs) (write_raw d2 bs).
Proof.
  intros [E1 E2 E3 E4 E5 [W1 W2 W3 W4 W5 W6 W7] HA] Hbs. unfold write_raw. rewrite <- E2, <- E3.
  destruct (slice_ok (d_len d1) (d_wr d1) (d_len d1)) eqn:Es; [|exact I].
  cbn [dres_rel fst snd]. rewrite <- E1, <- E4, <- E5.
  pose proof (zlen_nonneg bs) as Hn.
  assert (Emin : Z.min (d_len d1 - d_wr d1) (zlen bs) = zlen bs) by lia.
  rewrite Emin, zfirstn_all by lia.
  assert (Ewrap : wrap_int (d_wr d1 + zlen bs) = d_wr d1 + zlen bs).
  { apply wrap_int_id. unfold maxHistSize in W1. lia. }
  rewrite Ewrap.
  assert (Hv : 0 <= d_wr d1 <= valid d1) by (unfold valid; destruct (d_full d1); lia).
  pose proof (agree_blit (valid d1) (d_arr d1) (d_arr d2) (d_wr d1) bs HA Hv ltac:(lia)) as HB.
  split; [reflexivity|]. split.
  - constructor; cbn [d_size d_len d_wr d_rd d_full d_arr]; try reflexivity.
    + constructor; cbn [d_size d_len d_wr d_rd d_full d_arr]; try lia;
        rewrite zlen_blit by lia; try lia; exact W7.
    + unfold valid in *. cbn [d_full d_len d_wr]. eapply agree_le; [exact HB|].
      destruct (d_full d1); lia.
  - unfold hist_size. cbn [d_full d_size d_wr]. destruct (d_full d1); lia.
Qed.

(* ---- copy(dst, src) inside the buffer ------------------------------------------------------------------- *)
(* B: the bound below which the two arrays agree; the source lies below it, the destination
   starts at or below it *)
Lemma go_copy_eq' B a1 a2 dlo dhi slo shi : agree B a1 a2 -> shi <= B -> dlo <= B ->
  dres_rel (fun r1 r2 => fst r1 = fst r2 /\ 0 <= fst r1 /\ fst r1 <= dhi - dlo /\
                         zlen (snd r1) = zlen a1 /\ 0 <= dlo /\ dhi <= zlen a1 /\
                         agree (Z.max B (dlo + fst r1)) (snd r1) (snd r2))
           (go_copy a1 dlo dhi slo shi) (go_copy a2 dlo dhi slo shi).
Proof.
  intros HA Hs Hd. pose proof HA as [Hl _]. unfold go_copy. rewrite <- Hl.
  destruct (slice_ok (zlen a1) dlo dhi && slice_ok (zlen a1) slo shi) eqn:Es; [|exact I].
  cbn [dres_rel fst snd]. unfold slice_ok in Es.
  set (n := Z.min (dhi - dlo) (shi - slo)).
  assert (Hn : 0 <= n) by (unfold n; lia).
  assert (Hz : zlen (asub a1 slo (slo + n)) = n).
  { rewrite zlen_asub; [lia | lia | unfold n; lia]. }
  split; [reflexivity|]. split; [exact Hn|]. split; [unfold n; lia|].
  split; [rewrite zlen_blit; [reflexivity | lia | rewrite Hz; unfold n; lia]|].
  split; [lia|]. split; [lia|].
  assert (Esub : asub a1 slo (slo + n) = asub a2 slo (slo + n)).
  { apply (agree_asub B); [exact HA | lia | unfold n; lia | unfold n; lia]. }
  rewrite <- Esub.
  pose proof (agree_blit B a1 a2 dlo (asub a1 slo (slo + n)) HA ltac:(lia)) as HB.
  rewrite Hz in HB. apply HB. unfold n. lia.
Qed.

Lemma copy_loop_eq fuel : forall B a1 a2 rdPos wrPos wrEnd, agree B a1 a2 -> wrPos <= B ->
  dres_rel (fun r1 r2 => snd r1 = snd r2 /\ wrPos <= snd r1 /\ (wrPos <= wrEnd -> snd r1 <= wrEnd) /\
                         zlen (fst r1) = zlen a1 /\
                         agree (Z.max B (snd r1)) (fst r1) (fst r2))
           (copy_loop fuel a1 rdPos wrPos wrEnd) (copy_loop fuel a2 rdPos wrPos wrEnd).
Proof.
  induction fuel as [|f IH]; intros B a1 a2 rdPos wrPos wrEnd HA Hw; cbn [copy_loop].
  - destruct (wrPos <? wrEnd) eqn:E; [exact I|]. cbn [dres_rel fst snd].
    split; [reflexivity|]. split; [lia|]. split; [lia|]. split; [reflexivity|].
    eapply agree_le; [exact HA | lia].
  - destruct (wrPos <? wrEnd) eqn:E.
    + pose proof (go_copy_eq' B a1 a2 wrPos wrEnd rdPos wrPos HA Hw Hw) as HG.
      destruct (go_copy a1 wrPos wrEnd rdPos wrPos) as [[n1 b1]| | |];
        destruct (go_copy a2 wrPos wrEnd rdPos wrPos) as [[n2 b2]| | |]; cbn [dres_rel] in HG;
        try contradiction; try exact I.
      cbn [fst snd] in HG. destruct HG as (En & Hn0 & Hnle & Hlen & _ & _ & HA').
      subst n2. destruct (n1 =? 0) eqn:E0; [exact I|].
      specialize (IH (Z.max B (wrPos + n1)) b1 b2 rdPos (wrPos + n1) wrEnd HA' ltac:(lia)).
      destruct (copy_loop f b1 rdPos (wrPos + n1) wrEnd) as [[c1 w1]| | |];
        destruct (copy_loop f b2 rdPos (wrPos + n1) wrEnd) as [[c2 w2]| | |]; cbn [dres_rel] in IH;
        try contradiction; try exact I.
      cbn [dres_rel fst snd] in *. destruct IH as (Ew & Hle1 & Hle2 & Hlen2 & HA2).
      split; [exact Ew|]. split; [lia|]. split; [intros _; apply Hle2; lia|].
      split; [lia|]. eapply agree_le; [exact HA2 | lia].
    + cbn [dres_rel fst snd]. split; [reflexivity|]. split; [lia|]. split; [lia|].
      split; [reflexivity|]. eapply agree_le; [exact HA | lia].
Qed.

(* the dictDecoder after a copy that left the buffer [c] and the write position [w] *)
Lemma copy_result_eq d1 d2 c1 c2 w : dict_eq d1 d2 -> d_wr d1 <= w <= d_len d1 ->
  zlen c1 = zlen (d_arr d1) -> agree (Z.max (valid d1) w) c1 c2 ->
  dict_eq (mkDD (d_size d1) c1 (d_len d1) w (d_rd d1) (d_full d1))
          (mkDD (d_size d1) c2 (d_len d1) w (d_rd d1) (d_full d1)) /\
  hist_size d1 <= hist_size (mkDD (d_size d1) c1 (d_len d1) w (d_rd d1) (d_full d1)).
Proof.
  intros [E1 E2 E3 E4 E5 [W1 W2 W3 W4 W5 W6 W7] HA] Hw Hlen HA2. split.
  - constructor; cbn [d_size d_len d_wr d_rd d_full d_arr]; try assumption; try reflexivity.
    + constructor; cbn [d_size d_len d_wr d_rd d_full d_arr]; try lia. rewrite Hlen. exact W7.
    + unfold valid in *. cbn [d_full d_len d_wr]. eapply agree_le; [exact HA2|].
      destruct (d_full d1); lia.
  - unfold hist_size. cbn [d_full d_size d_wr]. destruct (d_full d1); lia.
Qed.

(* ---- TryWriteCopy ------------------------------------------------------------------------------------------ *)
Definition copy_post (d1 : dd) (r1 r2 : Z * dd) : Prop :=
  fst r1 = fst r2 /\ dict_eq (snd r1) (snd r2) /\ hist_size d1 <= hist_size (snd r1).

Lemma try_write_copy_eq d1 d2 dist len : dict_eq d1 d2 ->
  dres_rel (copy_post d1) (try_write_copy d1 dist len) (try_write_copy d2 dist len).
Proof.
  intros HD. pose proof HD as [E1 E2 E3 E4 E5 [W1 W2 W3 W4 W5 W6 W7] HA].
  unfold try_write_copy. rewrite <- E1, <- E2, <- E3, <- E4, <- E5.
  set (wrEnd := wrap_int (d_wr d1 + len)).
  destruct ((d_wr d1 <? dist) || (d_len d1 <? wrEnd)) eqn:Eg.
  { cbn [dres_rel]. unfold copy_post. cbn [fst snd]. split; [reflexivity|]. split; [exact HD | lia]. }
  assert (Hvw : d_wr d1 <= valid d1) by (unfold valid; destruct (d_full d1); lia).
  set (rdPos := wrap_int (d_wr d1 - dist)).
  pose proof (go_copy_eq' (valid d1) (d_arr d1) (d_arr d2) (d_wr d1) wrEnd rdPos (d_wr d1) HA
                Hvw Hvw) as HG.
  destruct (go_copy (d_arr d1) (d_wr d1) wrEnd rdPos (d_wr d1)) as [[n1 b1]| | |] eqn:G1;
    destruct (go_copy (d_arr d2) (d_wr d1) wrEnd rdPos (d_wr d1)) as [[n2 b2]| | |] eqn:G2;
    cbn [dres_rel] in HG; try contradiction; try exact I.
  cbn [fst snd] in HG. destruct HG as (En & Hn0 & Hnle & Hlen & _ & _ & HA').
  subst n2. destruct ((d_wr d1 + n1 <? wrEnd) && (n1 =? 0)) eqn:Eh; [exact I|].
  pose proof (copy_loop_eq (loop_fuel (d_wr d1 + n1) wrEnd) (Z.max (valid d1) (d_wr d1 + n1)) b1 b2
                rdPos (d_wr d1 + n1) wrEnd HA' ltac:(lia)) as HL.
  destruct (copy_loop (loop_fuel (d_wr d1 + n1) wrEnd) b1 rdPos (d_wr d1 + n1) wrEnd) as [[c1 w1]| | |];
    destruct (copy_loop (loop_fuel (d_wr d1 + n1) wrEnd) b2 rdPos (d_wr d1 + n1) wrEnd) as [[c2 w2]| | |];
    cbn [dres_rel] in HL; try contradiction; try exact I.
  cbn [dres_rel fst snd] in *. destruct HL as (Ew & Hle1 & Hle2 & Hlen2 & HA2). subst w2.
  unfold copy_post. cbn [fst snd]. split; [reflexivity|].
  apply (copy_result_eq d1 d2); [exact HD | lia | lia |].
  eapply agree_le; [exact HA2 | lia].
Qed.

(* ---- WriteCopy --------------------------------------------------------------------------------------------- *)
(* under the Reader's guarantee 0 <= dist <= HistSize the non-overlapping section "after the
   destination" is only read once the window has wrapped (then the whole buffer has been written) *)
Lemma write_copy_eq d1 d2 dist len : dict_eq d1 d2 -> 0 <= dist <= hist_size d1 ->
  dres_rel (copy_post d1) (write_copy d1 dist len) (write_copy d2 dist len).
Proof.
  intros HD Hdist. pose proof HD as [E1 E2 E3 E4 E5 [W1 W2 W3 W4 W5 W6 W7] HA].
  unfold write_copy. rewrite <- E1, <- E2, <- E3, <- E4, <- E5.
  assert (Hhs : hist_size d1 <= maxHistSize).
  { unfold hist_size. destruct (d_full d1); lia. }
  assert (Hmx : maxHistSize = 32768) by reflexivity.
  assert (Erd : wrap_int (d_wr d1 - dist) = d_wr d1 - dist) by (apply wrap_int_id; lia).
  rewrite Erd.
  set (wrEnd := if d_len d1 <? wrap_int (d_wr d1 + len) then d_len d1 else wrap_int (d_wr d1 + len)).
  assert (HwrEnd : wrEnd <= d_len d1).
  { unfold wrEnd. destruct (Z.ltb_spec (d_len d1) (wrap_int (d_wr d1 + len))); lia. }
  assert (Hvw : d_wr d1 <= valid d1) by (unfold valid; destruct (d_full d1); lia).
  assert (Hfin : forall c1 c2 w, d_wr d1 <= w -> (d_wr d1 <= wrEnd -> w <= wrEnd) -> (wrEnd < d_wr d1 -> w = d_wr d1) ->
            zlen c1 = zlen (d_arr d1) -> agree (Z.max (valid d1) w) c1 c2 ->
            copy_post d1 (w - d_wr d1, mkDD (d_size d1) c1 (d_len d1) w (d_rd d1) (d_full d1))
                         (w - d_wr d1, mkDD (d_size d1) c2 (d_len d1) w (d_rd d1) (d_full d1))).
  { intros c1 c2 w Hw1 Hw2 Hw3 Hl HA2. unfold copy_post. cbn [fst snd]. split; [reflexivity|].
    apply (copy_result_eq d1 d2); [exact HD | | exact Hl | exact HA2].
    destruct (Z.le_gt_cases (d_wr d1) wrEnd); lia. }
  destruct (d_wr d1 - dist <? 0) eqn:Eneg.
  - (* the window has wrapped *)
    assert (Hfull : d_full d1 = true).
    { unfold hist_size in Hdist. destruct (d_full d1); [reflexivity | lia]. }
    assert (Hv : valid d1 = d_len d1) by (unfold valid; rewrite Hfull; reflexivity).
    set (rdPos := wrap_int (d_wr d1 - dist + d_len d1)).
    destruct (slice_ok (d_len d1) rdPos (d_len d1)) eqn:Es; [|exact I].
    pose proof (go_copy_eq' (valid d1) (d_arr d1) (d_arr d2) (d_wr d1) wrEnd rdPos (d_len d1) HA
                  ltac:(lia) Hvw) as HG.
    destruct (go_copy (d_arr d1) (d_wr d1) wrEnd rdPos (d_len d1)) as [[n1 b1]| | |] eqn:G1;
      destruct (go_copy (d_arr d2) (d_wr d1) wrEnd rdPos (d_len d1)) as [[n2 b2]| | |] eqn:G2;
      cbn [dres_rel] in HG; try contradiction; try exact I.
    cbn [fst snd] in HG. destruct HG as (En & Hn0 & Hnle & Hlen & _ & _ & HA').
    subst n2.
    pose proof (copy_loop_eq (loop_fuel (d_wr d1 + n1) wrEnd) (Z.max (valid d1) (d_wr d1 + n1)) b1 b2
                  0 (d_wr d1 + n1) wrEnd HA' ltac:(lia)) as HL.
    destruct (copy_loop (loop_fuel (d_wr d1 + n1) wrEnd) b1 0 (d_wr d1 + n1) wrEnd) as [[c1 w1]| | |];
      destruct (copy_loop (loop_fuel (d_wr d1 + n1) wrEnd) b2 0 (d_wr d1 + n1) wrEnd) as [[c2 w2]| | |];
      cbn [dres_rel] in HL; try contradiction; try exact I.
    cbn [dres_rel fst snd] in *. destruct HL as (Ew & Hle1 & Hle2 & Hlen2 & HA2). subst w2.
    apply Hfin; [lia | intros _; apply Hle2; lia | | lia | eapply agree_le; [exact HA2 | lia]].
    intros Hc. exfalso. unfold go_copy in G1.
    destruct (slice_ok (zlen (d_arr d1)) (d_wr d1) wrEnd && _) eqn:Es'; [|discriminate].
    unfold slice_ok in Es'. lia.
  - pose proof (copy_loop_eq (loop_fuel (d_wr d1) wrEnd) (valid d1) (d_arr d1) (d_arr d2)
                  (d_wr d1 - dist) (d_wr d1) wrEnd HA Hvw) as HL.
    destruct (copy_loop (loop_fuel (d_wr d1) wrEnd) (d_arr d1) (d_wr d1 - dist) (d_wr d1) wrEnd) as [[c1 w1]| | |] eqn:L1;
      destruct (copy_loop (loop_fuel (d_wr d1) wrEnd) (d_arr d2) (d_wr d1 - dist) (d_wr d1) wrEnd) as [[c2 w2]| | |];
      cbn [dres_rel] in HL; try contradiction; try exact I.
    cbn [dres_rel fst snd] in *. destruct HL as (Ew & Hle1 & Hle2 & Hlen2 & HA2). subst w2.
    apply Hfin; [lia | exact Hle2 | | lia | exact HA2].
    intros Hc. destruct (loop_fuel (d_wr d1) wrEnd); cbn [copy_loop] in L1;
      (replace (d_wr d1 <? wrEnd) with false in L1 by (symmetry; apply Z.ltb_ge; lia));
      inversion L1; reflexivity.
Qed.

(* ---- ReadFlush ---------------------------------------------------------------------------------------------- *)
Lemma read_flush_eq d1 d2 : dict_eq d1 d2 ->
  dres_rel (fun r1 r2 => fst r1 = fst r2 /\ dict_eq (snd r1) (snd r2) /\ hist_size d1 <= hist_size (snd r1))
           (read_flush d1) (read_flush d2).
Proof.
  intros HD. pose proof HD as [E1 E2 E3 E4 E5 [W1 W2 W3 W4 W5 W6 W7] HA].
  pose proof HA as [Hcap _].
  unfold read_flush, d_cap. rewrite <- E1, <- E2, <- E3, <- E4, <- E5, <- Hcap.
  destruct (slice_ok (zlen (d_arr d1)) (d_rd d1) (d_wr d1)) eqn:Es; [|exact I].
  unfold slice_ok in Es.
  assert (Hvw : d_wr d1 <= valid d1) by (unfold valid; destruct (d_full d1); lia).
  assert (Esub : asub (d_arr d1) (d_rd d1) (d_wr d1) = asub (d_arr d2) (d_rd d1) (d_wr d1)).
  { apply (agree_asub (valid d1)); [exact HA | lia | exact Hvw | lia]. }
  rewrite <- Esub. assert (Hmx : maxHistSize = 32768) by reflexivity.
  destruct (d_wr d1 =? d_len d1) eqn:Ewl.
  - destruct (d_len d1 =? d_size d1) eqn:Els.
    + (* the window wraps *)
      cbn [dres_rel fst snd]. split; [reflexivity|]. split.
      * constructor; cbn [d_size d_len d_wr d_rd d_full d_arr]; try reflexivity.
        -- constructor; cbn [d_size d_len d_wr d_rd d_full d_arr]; try lia; exact W7.
        -- unfold valid in *. cbn [d_full d_len]. eapply agree_le; [exact HA|].
           destruct (d_full d1); lia.
      * unfold hist_size. cbn [d_full d_size]. destruct (d_full d1); lia.
    + (* the buffer grows *)
      assert (Hcl : zlen (d_arr d1) = d_len d1) by lia.
      rewrite Hcl.
      assert (Ew4 : wrap_int (d_len d1 * growFactor) = d_len d1 * 4).
      { unfold growFactor. apply wrap_int_id. lia. }
      rewrite Ew4.
      set (size := if d_size d1 <? d_len d1 * 4 then d_size d1 else d_len d1 * 4).
      assert (Hsz : d_len d1 <= size <= d_size d1).
      { unfold size. destruct (Z.ltb_spec (d_size d1) (d_len d1 * 4)); lia. }
      destruct (size <? 0) eqn:Eneg; [exact I|].
      cbn [dres_rel fst snd].
      assert (Emin : Z.min size (d_len d1) = d_len d1) by lia. rewrite Emin.
      rewrite (zfirstn_all (d_len d1) (d_arr d1)) by lia.
      rewrite (zfirstn_all (d_len d1) (d_arr d2)) by lia.
      split; [reflexivity|]. split.
      * constructor; cbn [d_size d_len d_wr d_rd d_full d_arr]; try reflexivity.
        -- constructor; cbn [d_size d_len d_wr d_rd d_full d_arr]; try lia;
             rewrite zlen_app, zlen_zeros by lia; try lia.
           replace (zlen (d_arr d1) + (size - d_len d1)) with (Z.min maxHistSize (zlen (d_arr d1) * 4)).
           ++ apply CapP_grow; [exact W7 | lia].
           ++ unfold size. rewrite Hcl, W1. destruct (Z.ltb_spec maxHistSize (d_len d1 * 4)); lia.
        -- unfold valid in *. cbn [d_full d_len d_wr]. destruct HA as [_ HA]. split.
           ++ rewrite !zlen_app. lia.
           ++ intros i Hi.
              destruct (Z.lt_ge_cases i (d_len d1)) as [Hlt|Hge].
              ** rewrite !znth_app_l by lia. apply HA. destruct (d_full d1); lia.
              ** rewrite !znth_app_r by lia. rewrite <- Hcap. reflexivity.
      * unfold hist_size. cbn [d_full d_size d_wr]. lia.
  - cbn [dres_rel fst snd]. split; [reflexivity|]. split.
    + constructor; cbn [d_size d_len d_wr d_rd d_full d_arr]; try reflexivity.
      * constructor; cbn [d_size d_len d_wr d_rd d_full d_arr]; try lia; exact W7.
      * exact HA.
    + unfold hist_size. cbn [d_full d_size d_wr]. lia.
Qed.

End Cap.

Arguments Dwf CapP d : clear implicits.
Arguments dict_eq CapP d1 d2 : clear implicits.
