(* Failure states: what the step simulations need to know about the bit reader after a read
   that failed (the Reader calls rd.Flush() after a failed step as well). *)
From V Require Import Base.Prelude Prefix.ReaderImpl Prefix.DecTable.
From V Require Import Flate.Impl Flate.ImplRel.

Local Open Scope N_scope.

(* a symbol read that throws leaves the bit reader consistent with the position it started at *)
Definition SymFailOK (data : list byte) (d : dec) : Prop :=
  forall k R p e p', BIs data k R p ->
    (sym_slow d p = (RThrow e, p') \/ sym_fast d p = (RThrow e, p')) ->
    exists k', BIs data k' R p'.

(* the same for ReadBits / TryReadBits+ReadBits *)
Definition BitsFailOK (data : list byte) : Prop :=
  forall k R p nb p', BIs data k R p -> nb <= 57 ->
    (read_bits p nb = (None, p') \/ bits_fast p nb = (None, p')) ->
    exists k', BIs data k' R p'.
