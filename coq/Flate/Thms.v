(* Theorems about the RFC 1951 model: it never asks "is this the end of the
   source?", hence the generic locality theorems apply to it. *)
From V Require Import Base.Prelude Base.Prog Base.ProgThms Flate.Spec.

Lemma ef_sym_tree t : eof_free (sym_tree t).
Proof.
  induction t as [| s | l IHl r IHr]; cbn [sym_tree]; constructor.
  intros []; assumption.
Qed.

Lemma ef_rbits n : eof_free (rbits n).
Proof. apply eof_free_bits_lsbf. Qed.

Lemma ef_sym_or_corrupt t : eof_free (sym_or_corrupt t).
Proof.
  unfold sym_or_corrupt. apply eof_free_bind; [apply ef_sym_tree|].
  intros [s|]; constructor.
Qed.

Lemma ef_read_clens order : eof_free (read_clens order).
Proof.
  induction order as [|s r IH]; cbn [read_clens]; [constructor|].
  apply eof_free_bind; [apply ef_rbits|]. intros l.
  apply eof_free_bind; [exact IH|]. intros; constructor.
Qed.

Lemma ef_opt_tree o : eof_free (opt_tree o).
Proof. destruct o; constructor. Qed.

Lemma ef_clen_body tree maxSyms s : eof_free (clen_body tree maxSyms s).
Proof.
  unfold clen_body. destruct (maxSyms <=? cl_sym s); [constructor|].
  apply eof_free_bind; [apply ef_sym_or_corrupt|]. intros clen.
  destruct (clen <? 16); [constructor|].
  apply eof_free_bind.
  - destruct (clen =? 16).
    + apply eof_free_bind; [apply eof_free_assert|]. intros _.
      apply eof_free_bind; [apply ef_rbits|]. intros; constructor.
    + destruct (clen =? 17).
      * apply eof_free_bind; [apply ef_rbits|]. intros; constructor.
      * destruct (clen =? 18); [|constructor].
        apply eof_free_bind; [apply ef_rbits|]. intros; constructor.
  - intros [cl rep].
    apply eof_free_bind; [apply eof_free_assert|]. intros; constructor.
Qed.

Lemma ef_read_prefix_codes : eof_free read_prefix_codes.
Proof.
  unfold read_prefix_codes.
  apply eof_free_bind; [apply ef_rbits|]. intros a.
  apply eof_free_bind; [apply ef_rbits|]. intros b.
  apply eof_free_bind; [apply ef_rbits|]. intros c.
  apply eof_free_bind; [apply eof_free_assert|]. intros _.
  apply eof_free_bind; [apply ef_read_clens|]. intros cl.
  apply eof_free_bind; [apply ef_opt_tree|]. intros ctree.
  apply eof_free_bind; [apply eof_free_loop; intros; apply ef_clen_body|]. intros lens.
  apply eof_free_bind; [apply ef_opt_tree|]. intros lt.
  apply eof_free_bind; [apply ef_opt_tree|]. intros dt.
  constructor.
Qed.

Lemma ef_block_body lt dt u : eof_free (block_body lt dt u).
Proof.
  unfold block_body.
  apply eof_free_bind; [apply ef_sym_or_corrupt|]. intros litSym.
  destruct (litSym <? 256); [repeat constructor|].
  destruct (litSym =? 256); [constructor|].
  destruct (litSym <? maxNumLitSyms); [|constructor].
  destruct (nth_range lenRanges (litSym - 257)) as [base nb].
  apply eof_free_bind; [apply ef_rbits|]. intros extra.
  apply eof_free_bind; [apply ef_sym_or_corrupt|]. intros distSym.
  apply eof_free_bind; [apply eof_free_assert|]. intros _.
  destruct (nth_range distRanges distSym) as [dbase dnb].
  apply eof_free_bind; [apply ef_rbits|]. intros dextra.
  constructor. intros h.
  apply eof_free_bind; [apply eof_free_assert|]. intros _.
  repeat constructor.
Qed.

Lemma ef_raw_bytes n : eof_free (raw_bytes n).
Proof.
  induction n as [|n IH]; cbn [raw_bytes]; [constructor|].
  apply eof_free_bind; [apply eof_free_bits_lsbf|]. intros b. constructor. exact IH.
Qed.

Lemma ef_one_block d : eof_free (one_block d).
Proof.
  unfold one_block.
  apply eof_free_bind; [apply ef_rbits|]. intros last.
  apply eof_free_bind; [apply ef_rbits|]. intros typ.
  apply eof_free_bind; [|intros; constructor].
  destruct (typ =? 0).
  - constructor. intros _.
    apply eof_free_bind; [apply ef_rbits|]. intros n.
    apply eof_free_bind; [apply ef_rbits|]. intros nn.
    apply eof_free_bind; [apply eof_free_assert|]. intros _.
    destruct (n =? 0); [repeat constructor | apply ef_raw_bytes].
  - destruct (typ =? 1).
    + apply eof_free_loop. intros; apply ef_block_body.
    + destruct (typ =? 2); [|constructor].
      apply eof_free_bind; [apply ef_read_prefix_codes|]. intros ts.
      apply eof_free_loop. intros; apply ef_block_body.
Qed.

Lemma ef_stream_body d u : eof_free (stream_body d u).
Proof.
  unfold stream_body. apply eof_free_bind; [apply ef_one_block|].
  intros []; repeat constructor.
Qed.

Theorem inflate_eof_free d : eof_free (inflate_prog d).
Proof. unfold inflate_prog. apply eof_free_loop. intros; apply ef_stream_body. Qed.

(* ---- instantiation of the generic byte-level theorems ------------------ *)
Definition inflate_d (d : nat) (input : list byte) : result unit :=
  decode bits_lsb (inflate_prog d) input.

Theorem inflate_trailing d input trailer :
  res_err (inflate_d d input) <> Some EUEOF ->
  res_err (inflate_d d (input ++ trailer)) = res_err (inflate_d d input) /\
  res_out (inflate_d d (input ++ trailer)) = res_out (inflate_d d input) /\
  res_pos (inflate_d d (input ++ trailer)) = res_pos (inflate_d d input).
Proof. intros H. apply (decode_trailing bits_lsb (inflate_prog d) input trailer (inflate_eof_free d) H). Qed.

Theorem inflate_truncated d input cut rest :
  input = cut ++ rest ->
  res_err (inflate_d d input) <> Some EUEOF ->
  8 * N.of_nat (length cut) < res_pos (inflate_d d input) ->
  res_err (inflate_d d cut) = Some EUEOF /\
  prefix_of (res_out (inflate_d d cut)) (res_out (inflate_d d input)).
Proof. intros H1 H2 H3. apply (decode_truncated bits_lsb bits_lsb_len (inflate_prog d) input cut rest (inflate_eof_free d) H1 H2 H3). Qed.

(* non-vacuity: a concrete accepted stream meets the hypotheses *)
Example inflate_accepts_something :
  res_err (inflate_d 8 [75;76;132;1;0]) = None /\
  res_out (inflate_d 8 [75;76;132;1;0]) = [97;97;97;97;97;97;97;97;97;97] /\
  8 * 4 < res_pos (inflate_d 8 [75;76;132;1;0]).
Proof. vm_compute. repeat split; reflexivity. Qed.
