(* DEFLATE decoding composes.

   Part 1 (history independence): a run of the RFC 1951 decoder model that succeeds (or
   ends in anything but Corrupted / a failed copy) with some output history is reproduced
   unchanged when an older history is put underneath it and the bit position is shifted by
   whole bytes: all its back-references reach into what it has itself produced, and the
   only observation of the history length ([Hist] in [block_body]) is the check
   [dist <= min h maxHistSize], which more history can only make more permissive.

   Part 2: sequences of non-final blocks ([scan_blocks] of XFlate/RoundTripStmt.v) compose
   with each other and with a following complete stream: [scan_app], [scan_then_stream],
   [scan_endblock]. *)
From V Require Import Base.Prelude Base.Prog Base.ProgThms Base.FuelThms Base.DepthThms
  Flate.Spec Flate.Thms Flate.Fuel Flate.Depth XFlate.Reader XFlate.RoundTripStmt.

(* ==== Part 1: history independence =================================================== *)

(* the same machine state with [older] underneath the output and [p0] more bits consumed *)
Definition shift (p0 : N) (older : list byte) (s : ast) : ast :=
  mkAst (a_in s) (a_pos s + p0) (a_out s ++ older) (a_len s + N.of_nat (length older)).

Definition shift_result {A} (p0 : N) (older : list byte) (r : result A) : result A :=
  match r with
  | Done a s => Done a (shift p0 older s)
  | Fail e s => Fail e (shift p0 older s)
  end.

(* results that do not depend on the absence of older history *)
Definition hgood {A} (r : result A) : Prop :=
  match r with
  | Done _ _ => True
  | Fail e _ => e <> ECorrupted /\ e <> EPanic
  end.

Definition hind {A} (p : prog A) : Prop :=
  forall p0 older s, p0 mod 8 = 0 -> wf_ast s -> hgood (run p s) ->
    run p (shift p0 older s) = shift_result p0 older (run p s).

Lemma shift_wf p0 older s : wf_ast s -> wf_ast (shift p0 older s).
Proof. unfold wf_ast, shift. cbn [a_len a_out]. intros H. rewrite H, app_length. lia. Qed.

Lemma hind_ret {A} (a : A) : hind (Ret a).
Proof. intros p0 older s _ _ _. reflexivity. Qed.

Lemma hind_throw {A} e : hind (@Throw A e).
Proof. intros p0 older s _ _ _. reflexivity. Qed.

Lemma hind_bind {A B} (p : prog A) (f : A -> prog B) :
  hind p -> (forall a, hind (f a)) -> hind (bind p f).
Proof.
  intros Hp Hf p0 older s H0 Hwf Hg. rewrite !run_bind in *.
  pose proof (run_wf p s Hwf) as Hwf1.
  assert (Hg1 : hgood (run p s)) by (destruct (run p s); [exact I | exact Hg]).
  rewrite (Hp p0 older s H0 Hwf Hg1).
  destruct (run p s) as [a s1|e s1]; cbn [shift_result res_state] in *; [|reflexivity].
  apply Hf; assumption.
Qed.

Lemma hind_bit {A} (k : bool -> prog A) : (forall b, hind (k b)) -> hind (Bit k).
Proof.
  intros Hk p0 older s H0 Hwf Hg. cbn [run shift a_in a_pos a_out a_len] in *.
  destruct (a_in s) as [|b r]; [reflexivity|].
  rewrite <- (Hk b p0 older _ H0); [| exact Hwf | exact Hg].
  unfold shift. cbn [a_in a_pos a_out a_len]. do 2 f_equal. lia.
Qed.

Lemma pad_count_shift pos p0 : p0 mod 8 = 0 -> pad_count (pos + p0) = pad_count pos.
Proof.
  intros H. unfold pad_count. replace ((pos + p0) mod 8) with (pos mod 8); [reflexivity|]. lia.
Qed.

Lemma hind_align {A} (k : N -> prog A) : (forall v, hind (k v)) -> hind (AlignP k).
Proof.
  intros Hk p0 older s H0 Hwf Hg. cbn [run shift a_in a_pos a_out a_len] in *.
  rewrite (pad_count_shift _ _ H0).
  destruct (Nat.leb _ _); [|reflexivity].
  match type of Hg with hgood (run (k ?v) ?s1) =>
    rewrite <- (Hk v p0 older s1 H0); [| exact Hwf | exact Hg] end.
  unfold shift. cbn [a_in a_pos a_out a_len]. do 2 f_equal. lia.
Qed.

Lemma hind_iseof {A} (k : bool -> prog A) : (forall b, hind (k b)) -> hind (IsEof k).
Proof.
  intros Hk p0 older s H0 Hwf Hg. cbn [run shift a_in a_pos a_out a_len] in *.
  apply (Hk _ p0 older s H0 Hwf Hg).
Qed.

Lemma hind_yield {A} (k : prog A) : hind k -> hind (Yield k).
Proof. intros Hk p0 older s H0 Hwf Hg. cbn [run] in *. apply (Hk p0 older s H0 Hwf Hg). Qed.

Lemma hind_put {A} b (k : prog A) : hind k -> hind (Put b k).
Proof.
  intros Hk p0 older s H0 Hwf Hg. cbn [run shift a_in a_pos a_out a_len] in *.
  match type of Hg with hgood (run k ?s1) =>
    assert (Hwf1 : wf_ast s1) by (unfold wf_ast in *; cbn [a_len a_out length]; lia);
    rewrite <- (Hk p0 older s1 H0 Hwf1 Hg) end.
  unfold shift. cbn [a_in a_pos a_out a_len app]. do 2 f_equal. lia.
Qed.

(* a copy that stays within the newer part does not see the older part *)
Lemma copy_chunks_older f n d out older :
  (0 < d)%nat -> (d <= length out)%nat ->
  copy_chunks f n d (out ++ older) = copy_chunks f n d out ++ older.
Proof.
  intros Hd. revert n out. induction f as [|f IH]; intros n out Hl; cbn [copy_chunks]; [reflexivity|].
  destruct (Nat.leb n d) eqn:E.
  - apply Nat.leb_le in E. rewrite skipn_app.
    replace (d - n - length out)%nat with O by lia. cbn [skipn].
    rewrite firstn_app, skipn_length.
    replace (n - (length out - (d - n)))%nat with O by lia. cbn [firstn].
    rewrite app_nil_r, app_assoc. reflexivity.
  - rewrite firstn_app. replace (d - length out)%nat with O by lia. cbn [firstn].
    rewrite app_nil_r, app_assoc. apply IH. rewrite app_length. lia.
Qed.

Lemma hind_copy {A} d l (k : prog A) : hind k -> hind (Copy d l k).
Proof.
  intros Hk p0 older s H0 Hwf Hg. cbn [run shift a_in a_pos a_out a_len] in *.
  destruct ((0 <? d) && (d <=? a_len s)) eqn:E; [|destruct Hg as [_ Hg]; congruence].
  apply andb_true_iff in E as [E1 E2]. apply N.ltb_lt in E1. apply N.leb_le in E2.
  assert (E' : (0 <? d) && (d <=? a_len s + N.of_nat (length older)) = true).
  { apply andb_true_iff. split; [apply N.ltb_lt | apply N.leb_le]; lia. }
  rewrite E'.
  assert (Hl : (N.to_nat d <= length (a_out s))%nat) by (unfold wf_ast in Hwf; lia).
  rewrite copy_chunks_older by lia.
  match type of Hg with hgood (run k ?s1) =>
    assert (Hwf1 : wf_ast s1);
    [| rewrite <- (Hk p0 older s1 H0 Hwf1 Hg) ] end.
  { unfold wf_ast in *. cbn [a_len a_out]. rewrite copy_chunks_length; lia. }
  unfold shift. cbn [a_in a_pos a_out a_len]. do 2 f_equal. lia.
Qed.

(* the one place where the decoder looks at the history length *)
Lemma hind_hist_check {A} dist m (k : prog A) :
  hind k -> hind (Hist (fun h => assert_p (dist <=? N.min h m) ECorrupted ;;; k)).
Proof.
  intros Hk p0 older s H0 Hwf Hg. cbn [run shift a_in a_pos a_out a_len] in *.
  rewrite run_bind in *. unfold assert_p in *.
  destruct (dist <=? N.min (a_len s) m) eqn:E.
  - apply N.leb_le in E.
    assert (E' : dist <=? N.min (a_len s + N.of_nat (length older)) m = true) by (apply N.leb_le; lia).
    rewrite E'. cbn [run] in *. apply (Hk p0 older s H0 Hwf Hg).
  - cbn [run hgood] in Hg. destruct Hg as [Hg _]. congruence.
Qed.

Lemma hind_assert c e : hind (assert_p c e).
Proof. unfold assert_p. destruct c; [apply hind_ret | apply hind_throw]. Qed.

Lemma hind_iter2 {St R} d (body : St -> prog (St + R)) :
  (forall st, hind (body st)) -> forall st, hind (iter2 d body st).
Proof.
  intros Hb. induction d as [|d IH]; intros st; cbn [iter2]; [apply Hb|].
  apply hind_bind; [apply IH|]. intros [st1|x]; [apply IH | apply hind_ret].
Qed.

Lemma hind_loop {St R} d (body : St -> prog (St + R)) st :
  (forall st, hind (body st)) -> hind (loop d body st).
Proof.
  intros Hb. unfold loop. apply hind_bind; [apply hind_iter2; exact Hb|].
  intros [st1|x]; [apply hind_throw | apply hind_ret].
Qed.

Lemma hind_bits_lsbf n : hind (bits_lsbf n).
Proof.
  induction n as [|n IH]; cbn [bits_lsbf]; [apply hind_ret|].
  apply hind_bit. intros b. apply hind_bind; [exact IH|]. intros; apply hind_ret.
Qed.

(* ---- the RFC 1951 model ------------------------------------------------------------ *)
Lemma hi_rbits n : hind (rbits n).
Proof. apply hind_bits_lsbf. Qed.

Lemma hi_sym_tree t : hind (sym_tree t).
Proof.
  induction t as [| s | l IHl r IHr]; cbn [sym_tree]; [apply hind_ret | apply hind_ret |].
  apply hind_bit. intros []; assumption.
Qed.

Lemma hi_sym_or_corrupt t : hind (sym_or_corrupt t).
Proof.
  unfold sym_or_corrupt. apply hind_bind; [apply hi_sym_tree|].
  intros [s|]; [apply hind_ret | apply hind_throw].
Qed.

Lemma hi_opt_tree o : hind (opt_tree o).
Proof. destruct o; [apply hind_ret | apply hind_throw]. Qed.

Lemma hi_read_clens order : hind (read_clens order).
Proof.
  induction order as [|s r IH]; cbn [read_clens]; [apply hind_ret|].
  apply hind_bind; [apply hi_rbits|]. intros l.
  apply hind_bind; [exact IH|]. intros rest. apply hind_ret.
Qed.

Lemma hi_clen_body tree maxSyms s : hind (clen_body tree maxSyms s).
Proof.
  unfold clen_body. destruct (maxSyms <=? cl_sym s); [apply hind_ret|].
  apply hind_bind; [apply hi_sym_or_corrupt|]. intros clen.
  destruct (clen <? 16); [apply hind_ret|].
  apply hind_bind.
  - destruct (clen =? 16).
    + apply hind_bind; [apply hind_assert|]. intros _.
      apply hind_bind; [apply hi_rbits|]. intros; apply hind_ret.
    + destruct (clen =? 17); [apply hind_bind; [apply hi_rbits|]; intros; apply hind_ret|].
      destruct (clen =? 18); [apply hind_bind; [apply hi_rbits|]; intros; apply hind_ret|].
      apply hind_throw.
  - intros [cl rep]. apply hind_bind; [apply hind_assert|]. intros _. apply hind_ret.
Qed.

Lemma hi_read_prefix_codes : hind read_prefix_codes.
Proof.
  unfold read_prefix_codes.
  apply hind_bind; [apply hi_rbits|]. intros numLit.
  apply hind_bind; [apply hi_rbits|]. intros numDist.
  apply hind_bind; [apply hi_rbits|]. intros numCLen. cbv zeta.
  apply hind_bind; [apply hind_assert|]. intros _.
  apply hind_bind; [apply hi_read_clens|]. intros cl.
  apply hind_bind; [apply hi_opt_tree|]. intros ctree.
  apply hind_bind; [apply hind_loop; intros; apply hi_clen_body|]. intros lens.
  apply hind_bind; [apply hi_opt_tree|]. intros lt.
  apply hind_bind; [apply hi_opt_tree|]. intros dt. apply hind_ret.
Qed.

Lemma hi_block_body lt dt u : hind (block_body lt dt u).
Proof.
  unfold block_body.
  apply hind_bind; [apply hi_sym_or_corrupt|]. intros litSym.
  destruct (litSym <? 256); [apply hind_put; apply hind_ret|].
  destruct (litSym =? 256); [apply hind_ret|].
  destruct (litSym <? maxNumLitSyms); [|apply hind_throw].
  destruct (nth_range lenRanges (litSym - 257)) as [base nb].
  apply hind_bind; [apply hi_rbits|]. intros extra.
  apply hind_bind; [apply hi_sym_or_corrupt|]. intros distSym.
  apply hind_bind; [apply hind_assert|]. intros _.
  destruct (nth_range distRanges distSym) as [dbase dnb].
  apply hind_bind; [apply hi_rbits|]. intros dextra.
  apply hind_hist_check. apply hind_copy. apply hind_ret.
Qed.

Lemma hi_raw_bytes k : hind (raw_bytes k).
Proof.
  induction k as [|k IH]; cbn [raw_bytes]; [apply hind_ret|].
  apply hind_bind; [apply hind_bits_lsbf|]. intros b. apply hind_put. exact IH.
Qed.

Theorem one_block_hind depth : hind (one_block depth).
Proof.
  unfold one_block.
  apply hind_bind; [apply hi_rbits|]. intros last.
  apply hind_bind; [apply hi_rbits|]. intros typ.
  apply hind_bind; [|intros; apply hind_ret].
  destruct (typ =? 0).
  { apply hind_align. intros _.
    apply hind_bind; [apply hi_rbits|]. intros len.
    apply hind_bind; [apply hi_rbits|]. intros nlen.
    apply hind_bind; [apply hind_assert|]. intros _.
    destruct (len =? 0); [apply hind_yield; apply hind_ret | apply hi_raw_bytes]. }
  destruct (typ =? 1); [apply hind_loop; intros; apply hi_block_body|].
  destruct (typ =? 2); [|apply hind_throw].
  apply hind_bind; [apply hi_read_prefix_codes|]. intros ts.
  apply hind_loop; intros; apply hi_block_body.
Qed.

Lemma stream_body_hind depth u : hind (stream_body depth u).
Proof.
  unfold stream_body. apply hind_bind; [apply one_block_hind|].
  intros []; [apply hind_align; intros; apply hind_ret | apply hind_ret].
Qed.

Theorem inflate_prog_hind depth : hind (inflate_prog depth).
Proof. unfold inflate_prog. apply hind_loop. intros; apply stream_body_hind. Qed.

(* the statement against [ast]: what a stream decodes to with an empty history, it
   decodes to on top of any history [out0], at any byte-aligned position [pos0] *)
Theorem inflate_prog_history depth bits pos0 out0 r :
  pos0 mod 8 = 0 ->
  run (inflate_prog depth) (ast_init bits) = r -> hgood r ->
  run (inflate_prog depth) (mkAst bits pos0 out0 (N.of_nat (length out0))) =
  shift_result pos0 out0 r.
Proof.
  intros H0 Hr Hg. subst r.
  rewrite <- (inflate_prog_hind depth pos0 out0 (ast_init bits) H0); [reflexivity | reflexivity | exact Hg].
Qed.

Theorem one_block_history depth bits pos0 out0 r :
  pos0 mod 8 = 0 ->
  run (one_block depth) (ast_init bits) = r -> hgood r ->
  run (one_block depth) (mkAst bits pos0 out0 (N.of_nat (length out0))) =
  shift_result pos0 out0 r.
Proof.
  intros H0 Hr Hg. subst r.
  rewrite <- (one_block_hind depth pos0 out0 (ast_init bits) H0); [reflexivity | reflexivity | exact Hg].
Qed.

(* non-vacuity: "a", copy 9 from distance 1 decodes on its own, and on top of "xyz" at
   bit position 24; the copy does not see the older bytes *)
Example inflate_prog_history_ex :
  hgood (run (inflate_prog 8) (ast_init (bytes_to_bits [75;76;132;1;0]))) /\
  res_out (run (inflate_prog 8) (mkAst (bytes_to_bits [75;76;132;1;0]) 24 [122;121;120] 3)) =
    [120;121;122;97;97;97;97;97;97;97;97;97;97].
Proof. vm_compute. split; [exact I | reflexivity]. Qed.

(* the hypothesis [hgood] cannot be dropped: a stream whose copy reaches before its own
   start is Corrupted on its own and fine on top of a history (fixed block: "aa", then
   copy 8 from distance 3) *)
Example history_dependent_stream :
  exists bits,
    res_err (run (inflate_prog 8) (ast_init bits)) = Some ECorrupted /\
    res_err (run (inflate_prog 8) (mkAst bits 0 [120] 1)) = None.
Proof.
  exists (bytes_to_bits [75;76;132;33;0]). vm_compute. split; reflexivity.
Qed.

(* ==== Part 2: sequences of non-final blocks ========================================== *)

(* [nf_steps d s s']: from [s], zero or more complete blocks with BFINAL = 0 lead to [s'] *)
Inductive nf_steps (d : nat) : ast -> ast -> Prop :=
| nfs_refl s : nf_steps d s s
| nfs_step s s1 s2 : run (one_block d) s = Done false s1 -> nf_steps d s1 s2 -> nf_steps d s s2.

Lemma nf_steps_trans d s1 s2 s3 : nf_steps d s1 s2 -> nf_steps d s2 s3 -> nf_steps d s1 s3.
Proof.
  intros H1 H2. induction H1 as [s|s sa sb E H IH]; [exact H2|].
  eapply nfs_step; [exact E | apply IH; exact H2].
Qed.

Lemma one_block_consumes d s b s1 : run (one_block d) s = Done b s1 -> (ilen s1 < ilen s)%nat.
Proof. intros H. exact (eats_one_block d s b s1 H I). Qed.

(* more input behind does not matter *)
Lemma nf_steps_ext d s s' t : nf_steps d s s' -> nf_steps d (ext s t) (ext s' t).
Proof.
  intros H. induction H as [s|s sa sb E H IH]; [apply nfs_refl|].
  eapply nfs_step; [|exact IH].
  rewrite (run_extend (one_block d) s t (ef_one_block d)); rewrite E; [reflexivity|].
  cbn [res_err]. discriminate.
Qed.

(* a larger budget does not matter *)
Lemma nf_steps_depth d d' s s' : (d <= d')%nat -> nf_steps d s s' -> nf_steps d' s s'.
Proof.
  intros Hd H. induction H as [s|s sa sb E H IH]; [apply nfs_refl|].
  eapply nfs_step; [|exact IH].
  apply (one_block_depth_mono d d' s _ Hd E). intros C; exact C.
Qed.

Lemma nf_steps_wf d s s' : nf_steps d s s' -> wf_ast s -> wf_ast s'.
Proof.
  intros H. induction H as [s|s sa sb E H IH]; intros Hwf; [exact Hwf|].
  apply IH. pose proof (run_wf (one_block d) s Hwf) as G. rewrite E in G. exact G.
Qed.

(* an older history underneath does not matter *)
Lemma nf_steps_shift d p0 older s s' :
  p0 mod 8 = 0 -> wf_ast s -> nf_steps d s s' -> nf_steps d (shift p0 older s) (shift p0 older s').
Proof.
  intros H0 Hwf H. induction H as [s|s sa sb E H IH]; [apply nfs_refl|].
  eapply nfs_step.
  - rewrite (one_block_hind d p0 older s H0 Hwf); rewrite E; [reflexivity | exact I].
  - apply IH. pose proof (run_wf (one_block d) s Hwf) as G. rewrite E in G. exact G.
Qed.

(* what was consumed *)
Lemma nf_steps_mono d s s' : nf_steps d s s' ->
  exists c, a_in s = c ++ a_in s' /\ a_pos s' = a_pos s + N.of_nat (length c).
Proof.
  intros H. induction H as [s|s sa sb E H IH].
  - exists []. split; [reflexivity | cbn [length]; lia].
  - destruct IH as [c2 [I1 I2]].
    destruct (run_mono (one_block d) s) as [o [c1 [_ [M1 M2]]]]. rewrite E in M1, M2.
    cbn [res_state] in M1, M2.
    exists (c1 ++ c2). rewrite <- app_assoc, <- I1. split; [exact M1|].
    rewrite I2, M2, app_length. lia.
Qed.

(* non-final blocks are iterations of the stream loop that continue *)
Lemma nf_steps_loops d s s1 r :
  nf_steps d s s1 -> loops (stream_body d) tt s1 r -> loops (stream_body d) tt s r.
Proof.
  intros H Hr. induction H as [s|s sa sb E H IH]; [exact Hr|].
  apply (loops_step (stream_body d) tt s tt sa).
  - unfold stream_body. rewrite run_bind, E. reflexivity.
  - apply IH. exact Hr.
Qed.

(* ---- [scan_blocks] is the search for such a sequence that uses up the input ---------- *)
Lemma scan_blocks_steps f d s s' :
  scan_blocks f d s = Some s' -> nf_steps d s s' /\ a_in s' = [].
Proof.
  revert s. induction f as [|f IH]; intros s H; cbn [scan_blocks] in H; [discriminate|].
  destruct (a_in s) as [|b0 r0] eqn:Ein.
  - inversion H; subst. split; [apply nfs_refl | exact Ein].
  - destruct (run (one_block d) s) as [[|] s1|e s1] eqn:E; try discriminate.
    destruct (IH s1 H) as [H1 H2]. split; [|exact H2].
    eapply nfs_step; [exact E | exact H1].
Qed.

Lemma steps_scan_blocks d s s' : nf_steps d s s' -> a_in s' = [] ->
  forall f, (ilen s < f)%nat -> scan_blocks f d s = Some s'.
Proof.
  intros H He. induction H as [s|s sa sb E H IH]; intros f Hf.
  - destruct f as [|f]; [lia|]. cbn [scan_blocks]. rewrite He. reflexivity.
  - destruct f as [|f]; [lia|]. cbn [scan_blocks].
    pose proof (one_block_consumes d s false sa E) as Hc.
    destruct (a_in s) as [|b0 r0] eqn:Ein.
    + unfold ilen in Hc. rewrite Ein in Hc. cbn [length] in Hc. lia.
    + rewrite E. apply IH; [exact He | lia].
Qed.

Lemma bytes_to_bits_app a b : bytes_to_bits (a ++ b) = bytes_to_bits a ++ bytes_to_bits b.
Proof. unfold bytes_to_bits. apply flat_map_app. Qed.

(* [nonfinal_blocks c = Some da], unfolded: the final state of the scan *)
Lemma nonfinal_blocks_elim c da : nonfinal_blocks c = Some da ->
  exists s, nf_steps (depth_for (length c)) (ast_init (bytes_to_bits c)) s /\
            a_in s = [] /\ a_pos s = N.of_nat (8 * length c) /\ wf_ast s /\
            rev (a_out s) = da.
Proof.
  unfold nonfinal_blocks. intros H.
  destruct (scan_blocks _ _ _) as [s|] eqn:E; [|discriminate].
  inversion H; subst da. clear H.
  destruct (scan_blocks_steps _ _ _ _ E) as [H1 H2].
  exists s. split; [exact H1|]. split; [exact H2|].
  destruct (nf_steps_mono _ _ _ H1) as [c0 [M1 M2]].
  rewrite H2, app_nil_r in M1. cbn [ast_init a_in a_pos] in M1, M2. subst c0.
  rewrite bytes_to_bits_length in M2.
  split; [rewrite M2; lia|]. split; [|symmetry; apply fast_rev_eq].
  apply (nf_steps_wf _ _ _ H1). reflexivity.
Qed.

(* a smaller budget that is still enough for the input does not matter either *)
Lemma nf_steps_depth_down d d' s s' :
  (ilen s < 2 ^ d)%nat -> (d <= d')%nat -> nf_steps d' s s' -> nf_steps d s s'.
Proof.
  intros Hi Hd H. induction H as [s|s sa sb E H IH]; [apply nfs_refl|].
  assert (E' : run (one_block d) s = Done false sa).
  { rewrite (one_block_depth_indep d d' s Hi); [exact E|].
    assert (2 ^ d <= 2 ^ d')%nat by (apply Nat.pow_le_mono_r; lia). lia. }
  eapply nfs_step; [exact E'|]. apply IH.
  pose proof (one_block_consumes _ _ _ _ E). lia.
Qed.

Lemma nonfinal_blocks_intro c d s :
  (depth_for (length c) <= d)%nat ->
  nf_steps d (ast_init (bytes_to_bits c)) s -> a_in s = [] ->
  nonfinal_blocks c = Some (rev (a_out s)).
Proof.
  intros Hd H He. unfold nonfinal_blocks.
  assert (Hs : nf_steps (depth_for (length c)) (ast_init (bytes_to_bits c)) s).
  { apply (nf_steps_depth_down _ d); [|exact Hd | exact H].
    apply depth_for_enough_init. apply le_n. }
  rewrite (steps_scan_blocks _ _ _ Hs He).
  - rewrite fast_rev_eq. reflexivity.
  - unfold ilen. cbn [ast_init a_in]. rewrite bytes_to_bits_length. lia.
Qed.

(* where the next piece starts: the end state of a scan, with more input behind it, is the
   start state of that input shifted by what the scan consumed and produced *)
Lemma join_state sa t : a_in sa = [] -> wf_ast sa ->
  ext sa t = shift (a_pos sa) (a_out sa) (ast_init t).
Proof.
  intros Hi Hwf. destruct sa as [i p o l]. unfold wf_ast in Hwf. cbn [a_in a_len a_out] in *. subst i l.
  unfold ext, shift, ast_init. cbn [a_in a_pos a_out a_len app]. f_equal; lia.
Qed.

(* ---- L6 --------------------------------------------------------------------------- *)
Theorem scan_app : scan_app_stmt.
Proof.
  intros a b da db _ _ Ha Hb.
  destruct (nonfinal_blocks_elim a da Ha) as [sa [Sa [Ia [Pa [Wa Oa]]]]].
  destruct (nonfinal_blocks_elim b db Hb) as [sb [Sb [Ib [Pb [Wb Ob]]]]].
  set (D := depth_for (length (a ++ b))).
  assert (Da : (depth_for (length a) <= D)%nat) by (apply depth_for_mono; rewrite app_length; lia).
  assert (Db : (depth_for (length b) <= D)%nat) by (apply depth_for_mono; rewrite app_length; lia).
  assert (H0 : a_pos sa mod 8 = 0) by (rewrite Pa; lia).
  (* a's blocks, with b's bits behind them, at the common depth *)
  pose proof (nf_steps_ext _ _ _ (bytes_to_bits b) (nf_steps_depth _ _ _ _ Da Sa)) as S1.
  (* b's blocks on top of a's output *)
  pose proof (nf_steps_shift _ (a_pos sa) (a_out sa) _ _ H0 (eq_refl : wf_ast (ast_init _))
                (nf_steps_depth _ _ _ _ Db Sb)) as S2.
  rewrite <- (join_state sa _ Ia Wa) in S2.
  pose proof (nf_steps_trans _ _ _ _ S1 S2) as S.
  change (ext (ast_init (bytes_to_bits a)) (bytes_to_bits b))
    with (ast_init (bytes_to_bits a ++ bytes_to_bits b)) in S.
  rewrite <- bytes_to_bits_app in S.
  rewrite (nonfinal_blocks_intro (a ++ b) D _ (le_n _) S).
  - cbn [shift a_out]. rewrite rev_app_distr, Oa, Ob. reflexivity.
  - cbn [shift a_in]. exact Ib.
Qed.

Theorem scan_then_stream : scan_then_stream_stmt.
Proof.
  intros a b rest da db _ _ _ Ha Hb.
  destruct (nonfinal_blocks_elim a da Ha) as [sa [Sa [Ia [Pa [Wa Oa]]]]].
  unfold inflate in Hb.
  destruct (run (inflate_prog (depth_for (length b))) (ast_init (bytes_to_bits b)))
    as [[] sb|e sb] eqn:Eb; cbn [res_err res_out res_pos res_state] in Hb; [|discriminate].
  injection Hb as Ob Ub. unfold res_out, res_pos, res_state in Ob, Ub. rewrite fast_rev_eq in Ob.
  set (D := depth_for (length (a ++ b ++ rest))).
  assert (Da : (depth_for (length a) <= D)%nat) by (apply depth_for_mono; rewrite !app_length; lia).
  assert (Db : (depth_for (length b) <= D)%nat) by (apply depth_for_mono; rewrite !app_length; lia).
  assert (H0 : a_pos sa mod 8 = 0) by (rewrite Pa; lia).
  set (tb := bytes_to_bits b ++ bytes_to_bits rest).
  (* a's blocks with everything else behind them, at the depth of the whole *)
  pose proof (nf_steps_ext _ _ _ tb (nf_steps_depth _ _ _ _ Da Sa)) as S1.
  change (ext (ast_init (bytes_to_bits a)) tb) with (ast_init (bytes_to_bits a ++ tb)) in S1.
  unfold tb in S1 at 1. rewrite <- !bytes_to_bits_app in S1.
  (* b: larger budget, trailing input, a's output underneath *)
  assert (E1 : run (inflate_prog D) (ast_init (bytes_to_bits b)) = Done tt sb).
  { apply (inflate_prog_depth_mono _ D _ _ Db Eb). intros C; exact C. }
  assert (E2 : run (inflate_prog D) (ast_init tb) = Done tt (ext sb (bytes_to_bits rest))).
  { change (ast_init tb) with (ext (ast_init (bytes_to_bits b)) (bytes_to_bits rest)).
    rewrite (run_extend _ _ _ (inflate_eof_free D)); rewrite E1; [reflexivity|].
    cbn [res_err]. discriminate. }
  assert (E3 : run (inflate_prog D) (ext sa tb) =
               Done tt (shift (a_pos sa) (a_out sa) (ext sb (bytes_to_bits rest)))).
  { rewrite (join_state sa tb Ia Wa).
    rewrite (inflate_prog_hind D _ _ _ H0 (eq_refl : wf_ast (ast_init tb))); rewrite E2;
      [reflexivity | exact I]. }
  (* the whole: unroll the stream loop over a's blocks *)
  set (s0 := ast_init (bytes_to_bits (a ++ b ++ rest))) in *.
  assert (E : run (inflate_prog D) s0 =
              Done tt (shift (a_pos sa) (a_out sa) (ext sb (bytes_to_bits rest)))).
  { assert (Hne : ~ is_efuel (run (inflate_prog D) s0)).
    { apply inflate_prog_not_efuel. apply depth_for_enough_init. apply le_n. }
    unfold inflate_prog in *. apply loops_loop; [|exact Hne].
    apply (nf_steps_loops D s0 (ext sa tb)); [exact S1|].
    rewrite <- E3. apply loop_loops. rewrite E3. intros C; exact C. }
  unfold inflate. fold D. fold s0. rewrite E.
  cbn [res_err res_out res_pos res_state shift ext a_in a_pos a_out a_len].
  f_equal.
  - unfold res_out. cbn [res_state shift ext a_out]. rewrite fast_rev_eq, rev_app_distr, Oa, Ob. reflexivity.
  - rewrite Pa. lia.
Qed.

Lemma inflate_endBlock : inflate endBlock = mkIR None [] 5.
Proof. vm_compute. reflexivity. Qed.

Theorem scan_endblock : scan_endblock_stmt.
Proof.
  intros a da Ha Hn.
  pose proof (scan_then_stream a endBlock [] da [] Ha) as H.
  rewrite !app_nil_r in H. rewrite H.
  - f_equal. change (length endBlock) with 5%nat. lia.
  - unfold endBlock. intros x Hx. cbn [In] in Hx.
    repeat (destruct Hx as [Hx|Hx]; [subst x; lia|]). contradiction.
  - intros x [].
  - exact Hn.
  - exact inflate_endBlock.
Qed.

Goal XFlate.RoundTripStmt.scan_app_stmt. Proof. exact scan_app. Qed.
Goal XFlate.RoundTripStmt.scan_then_stream_stmt. Proof. exact scan_then_stream. Qed.
Goal XFlate.RoundTripStmt.scan_endblock_stmt. Proof. exact scan_endblock. Qed.

(* ---- non-vacuity ------------------------------------------------------------------ *)
(* [nfx]: a non-final fixed-Huffman block ("aa", copy 8 from distance 1) followed by an
   empty non-final stored block that pads to the byte boundary; [nst]: a non-final stored
   block with one byte; [75;76;132;33;0]: a final block whose copy (distance 3) reaches
   one byte before its own start - it does not decode on its own, and the composition
   theorem correctly does not apply to it, while the self-contained one composes. *)
Definition nfx : list byte := [74;76;132;1;0;0;0;0;255;255].
Definition nst : list byte := [0;1;0;254;255;65].

Example scan_app_ex :
  nonfinal_blocks nfx = Some [97;97;97;97;97;97;97;97;97;97] /\
  nonfinal_blocks nst = Some [65] /\
  nonfinal_blocks (nst ++ nfx) = Some ([65] ++ [97;97;97;97;97;97;97;97;97;97]).
Proof.
  assert (H1 : nonfinal_blocks nfx = Some [97;97;97;97;97;97;97;97;97;97]) by (vm_compute; reflexivity).
  assert (H2 : nonfinal_blocks nst = Some [65]) by (vm_compute; reflexivity).
  split; [exact H1|]. split; [exact H2|].
  apply scan_app; try assumption; intros x Hx; cbn [In nfx nst] in Hx;
    repeat (destruct Hx as [Hx|Hx]; [subst x; lia|]); contradiction.
Qed.

Example scan_then_stream_ex :
  inflate [75;76;132;1;0] = mkIR None [97;97;97;97;97;97;97;97;97;97] 5 /\
  inflate (nst ++ [75;76;132;1;0] ++ [1;2;3]) =
    mkIR None ([65] ++ [97;97;97;97;97;97;97;97;97;97]) 11.
Proof.
  assert (H1 : inflate [75;76;132;1;0] = mkIR None [97;97;97;97;97;97;97;97;97;97] 5)
    by (vm_compute; reflexivity).
  split; [exact H1|].
  apply (scan_then_stream nst [75;76;132;1;0] [1;2;3] [65] _);
    try (intros x Hx; cbn [In nst] in Hx;
         repeat (destruct Hx as [Hx|Hx]; [subst x; lia|]); contradiction).
  - vm_compute; reflexivity.
  - exact H1.
Qed.

(* the restriction to self-contained [b] is needed for the statement as it is phrased
   (hypothesis on [inflate b] alone): this [b] decodes only on top of a history *)
Example stream_needs_history :
  ir_err (inflate [75;76;132;33;0]) = Some ECorrupted /\
  inflate (nst ++ [75;76;132;33;0]) = mkIR None [65;97;97;65;97;97;65;97;97;65;97] 11.
Proof. vm_compute. split; reflexivity. Qed.

Example scan_endblock_ex :
  inflate ((nst ++ nfx) ++ endBlock) =
    mkIR None ([65] ++ [97;97;97;97;97;97;97;97;97;97]) (N.of_nat (length (nst ++ nfx)) + 5).
Proof.
  apply scan_endblock; [|apply scan_app_ex].
  intros x Hx; cbn [In nfx nst app] in Hx;
    repeat (destruct Hx as [Hx|Hx]; [subst x; lia|]); contradiction.
Qed.

Print Assumptions inflate_prog_history.
Print Assumptions one_block_history.
Print Assumptions scan_app.
Print Assumptions scan_then_stream.
Print Assumptions scan_endblock.
