(* LIFECYCLE THEOREMS for the implementation-level model of flate.Reader
   (Flate/Impl.v + Flate/ImplLife.v):

     fl_error_sticky     C09  an error returned by Read (io.EOF included) is returned by every
                              later Read, with no bytes and nothing moving; Close surfaces it
     fl_closed_inert     C18  after Close on a Reader with a latched error: Read / Close in any
                              order return the closed error / nil (or the latched error), deliver
                              nothing, move nothing.  fl_close_frame: Close never touches source,
                              offsets, window - from ANY state.  A Close with NO latched error
                              (middle of a stream) latches nothing: fl_closed_inert_any_state_refuted
     fl_reset_as_new     C14  Reset of ANY state = a new Reader over a window buffer of the same
                              capacity, for every later history (further Resets / Closes included);
                              the capacity is observable (fl_reset_capacity_witness), so
                              "= NewReader" holds exactly when the buffer has not grown
                              (fl_reset_as_new_fresh), and at the level of whole streams always
                              (fl_reset_same_stream_buffered, from the refinement theorem). *)
From V Require Import Base.Prelude Prefix.ReaderImpl Prefix.DecTable Window.Dict Window.DictThms.
From V Require Flate.Spec.
From V Require Import Flate.Impl Flate.ImplLife Flate.ImplLifeWin Flate.ImplLifeSim Flate.ImplThms.
From Coq Require Import ZifyBool ZifyN ZifyNat.

Local Open Scope N_scope.

(* ---- the latched error ---------------------------------------------------------------------------------- *)
(* zr.err = e and nothing pending in zr.toRead *)
Definition latched (st : flst) (e : err) : Prop := f_toRead st = [] /\ f_err st = Some e.

(* what Close makes of the latched error, and what it returns *)
Definition closed_class (e : err) : err := match e with EEOF => EClosed | EClosed => EClosed | _ => e end.
Definition close_ret (e : err) : option err := match e with EEOF => None | EClosed => None | _ => Some e end.

Lemma closed_class_idem e : closed_class (closed_class e) = closed_class e.
Proof. destruct e; reflexivity. Qed.

Lemma set_toRead_same st : f_toRead st = [] -> set_toRead st [] = st.
Proof. destruct st; cbn. intros ->. reflexivity. Qed.

Lemma set_err_same' st e : f_err st = Some e -> set_err st (Some e) = st.
Proof. destruct st; cbn. intros ->. reflexivity. Qed.

Lemma fl_read_latched st n e : latched st e -> fl_read st n = (([], Some e), st).
Proof.
  intros [Ht He]. unfold fl_read.
  assert (Hr : ready st = true) by (unfold ready; rewrite Ht, He; reflexivity).
  rewrite Hr, Ht, He. reflexivity.
Qed.

(* a Read that returns an error has latched it with nothing left to deliver *)
Lemma fl_read_err_latches st n bs e st' : fl_read st n = ((bs, Some e), st') -> latched st' e.
Proof.
  unfold fl_read. set (st1 := if ready st then st else rounds (round_depth st) st).
  destruct (f_toRead st1) as [|x tr] eqn:Et.
  - destruct (f_err st1) as [e1|] eqn:Ee; intros H; inversion H; subst.
    + split; assumption.
    + split; [exact Et | reflexivity].
  - destruct (skipn n (x :: tr)) as [|y rest] eqn:Es; intros H; inversion H; subst.
    split; [reflexivity | assumption].
Qed.

Lemma fl_close_eq st e : f_err st = Some e ->
  fl_close st = (close_ret e, set_err (set_toRead st []) (Some (closed_class e))).
Proof.
  intros He. unfold fl_close. cbv zeta.
  assert (E1 : f_err (set_toRead st []) = Some e) by exact He. rewrite E1.
  destruct e; try reflexivity; cbn [close_ret closed_class]; rewrite (set_err_same' _ _ E1); reflexivity.
Qed.

Lemma fl_close_latched st e : latched st e ->
  fl_close st = (close_ret e, set_err st (Some (closed_class e))).
Proof. intros [Ht He]. rewrite (fl_close_eq st e He), (set_toRead_same st Ht). reflexivity. Qed.

Definition is_read (o : flop) : Prop := match o with FRead _ => True | _ => False end.
Definition no_reset (o : flop) : Prop := match o with FReset _ _ _ _ => False | _ => True end.

(* ---- C09: the error is sticky ---------------------------------------------------------------------------- *)
(* Once a Read has returned a non-nil error e - io.EOF and the closed error included - every
   later Read returns (0, e): no byte, the same error, InputOffset / OutputOffset / the source
   position unchanged (the state does not change at all), however many Reads follow and with
   whatever buffer sizes. Close then returns nil if e is io.EOF (or the closed error) and e
   otherwise, and changes nothing but the error, which becomes the closed error in the first case. *)
Theorem fl_error_sticky st n bs e st' :
  fl_read st n = ((bs, Some e), st') ->
  (forall ops, Forall is_read ops ->
     fl_ops st' ops = (map (fun _ => lobs_of LkRead [] (Some e) st') ops, st')) /\
  fl_close st' = (close_ret e, set_err st' (Some (closed_class e))).
Proof.
  intros H. pose proof (fl_read_err_latches st n bs e st' H) as HL. split.
  - induction ops as [|o r IH]; intros Hall; [reflexivity|].
    inversion Hall as [|? ? Ho Hr]; subst. destruct o as [k| |]; try contradiction.
    cbn [fl_ops fl_op map]. rewrite (fl_read_latched st' k e HL). rewrite (IH Hr). reflexivity.
  - apply fl_close_latched. exact HL.
Qed.

(* ---- C18: closed means closed ----------------------------------------------------------------------------- *)
(* Close, from ANY state: the source, the bit reader, both offsets and the window are untouched;
   the pending output is dropped; the result is nil or the latched error *)
Theorem fl_close_frame st :
  let st1 := snd (fl_close st) in
  f_rd st1 = f_rd st /\ f_inOff st1 = f_inOff st /\ f_outOff st1 = f_outOff st /\
  f_dict st1 = f_dict st /\ f_toRead st1 = [] /\
  (f_err st = None -> fl_close st = (None, set_toRead st [])).
Proof.
  unfold fl_close. cbv zeta.
  assert (E1 : f_err (set_toRead st []) = f_err st) by reflexivity. rewrite E1.
  destruct (f_err st) as [e|]; [destruct e|]; cbn [snd];
    repeat (split; [reflexivity|]); try (intros C; discriminate); reflexivity.
Qed.

(* After Close on a Reader whose error is latched (any error: io.EOF, a decoding error, a source
   error, the closed error itself), from any such state - pending output or not -: Close returned
   nil for io.EOF / closed and the error otherwise; every later Read returns no byte and the closed
   error (resp. that error), every later Close nil (resp. that error), in any order and number;
   the state never changes again, so offsets and source position stay where they were. *)
Theorem fl_closed_inert st e :
  f_err st = Some e ->
  let st1 := snd (fl_close st) in
  let e' := closed_class e in
  fst (fl_close st) = close_ret e /\
  st1 = set_err (set_toRead st []) (Some e') /\
  (f_rd st1 = f_rd st /\ f_inOff st1 = f_inOff st /\ f_outOff st1 = f_outOff st) /\
  forall ops, Forall no_reset ops ->
    fl_ops st1 ops =
    (map (fun o => match o with
                   | FRead _ => lobs_of LkRead [] (Some e') st1
                   | _ => lobs_of LkClose [] (close_ret e') st1
                   end) ops, st1).
Proof.
  intros He. cbv zeta. rewrite (fl_close_eq st e He). cbn [fst snd].
  set (st1 := set_err (set_toRead st []) (Some (closed_class e))).
  split; [reflexivity|]. split; [reflexivity|]. split; [repeat split; reflexivity|].
  assert (HL : latched st1 (closed_class e)) by (split; reflexivity).
  induction ops as [|o r IH]; intros Hall; [reflexivity|].
  inversion Hall as [|? ? Ho Hr]; subst. destruct o as [k| |]; try contradiction.
  - cbn [fl_ops fl_op map]. rewrite (fl_read_latched st1 k _ HL). rewrite (IH Hr). reflexivity.
  - cbn [fl_ops fl_op map]. rewrite (fl_close_latched st1 _ HL), closed_class_idem.
    rewrite (set_err_same' st1 _ (proj2 HL)). rewrite (IH Hr). reflexivity.
Qed.

(* "closed means closed from ANY state" is NOT what the code does: with zr.err == nil Close
   drops the pending output and latches nothing; the next Read goes on decoding. *)
Definition fl_closed_inert_any_state_statement : Prop :=
  forall st n, fst (fst (fl_read (snd (fl_close st)) n)) = [].

(* ---- C14: Reset ------------------------------------------------------------------------------------------------ *)
Section ResetSim.
Variable CapP : Z -> Prop.
Hypothesis CapP_grow : forall c, CapP c -> (0 <= c < maxHistSize)%Z -> CapP (Z.min maxHistSize (c * 4)).
Notation E := (E CapP).
Notation W0 := (W0 CapP).

Lemma fl_close_sim s1 s2 : E s1 s2 ->
  fst (fl_close s1) = fst (fl_close s2) /\ E (snd (fl_close s1)) (snd (fl_close s2)).
Proof.
  intros HE. pose proof HE as [HW HEn]. unfold fl_close. cbv zeta.
  assert (E1 : f_err (set_toRead s1 []) = f_err s1) by reflexivity.
  assert (E2 : f_err (set_toRead s2 []) = f_err s1) by (symmetry; exact (w_err _ _ _ HW)).
  rewrite E1, E2.
  assert (HW1 : W0 (set_toRead s1 []) (set_toRead s2 [])) by w0_solve HW.
  assert (HE1 : E (set_toRead s1 []) (set_toRead s2 [])).
  { apply (E_upd CapP s1 s2); [exact HE | exact HW1 | reflexivity | slots_solve | slots_solve | frame_solve]. }
  assert (Hc : W0 (set_err (set_toRead s1 []) (Some EClosed)) (set_err (set_toRead s2 []) (Some EClosed)))
    by w0_solve HW1.
  destruct (f_err s1) as [e|]; [destruct e|]; cbn [fst snd];
    (split; [reflexivity|]); try exact HE1; (split; [exact Hc | intros C; discriminate]).
Qed.

(* Reset only needs the two window buffers to have the same capacity *)
Lemma fl_reset_sim s1 s2 data bf fills reads :
  zlen (d_arr (f_dict s1)) = zlen (d_arr (f_dict s2)) -> CapP (zlen (d_arr (f_dict s1))) ->
  exists t1 t2, fl_reset s1 data bf fills reads = Ok t1 /\ fl_reset s2 data bf fills reads = Ok t2 /\ E t1 t2.
Proof.
  intros Hl Hcp. destruct (dd_init_eq CapP CapP_grow _ _ Hl Hcp) as (d1 & d2 & E1 & E2 & HD).
  unfold fl_reset. rewrite E1, E2. eexists; eexists. split; [reflexivity|]. split; [reflexivity|].
  split.
  - constructor; cbn; try reflexivity. exact HD.
  - intros _. split.
    + unfold QS. cbn. intros C; discriminate.
    + unfold DI. cbn. intros C; discriminate.
Qed.

Lemma E_cap s1 s2 : E s1 s2 -> zlen (d_arr (f_dict s1)) = zlen (d_arr (f_dict s2)).
Proof. intros [HW _]. exact (proj1 (de_agree _ _ _ (w_dict _ _ _ HW))). Qed.

Lemma E_capP s1 s2 : E s1 s2 -> CapP (zlen (d_arr (f_dict s1))).
Proof. intros [HW _]. exact (w_cap _ _ (de_wf _ _ _ (w_dict _ _ _ HW))). Qed.

Lemma fl_op_sim s1 s2 o : E s1 s2 ->
  fst (fl_op s1 o) = fst (fl_op s2 o) /\ E (snd (fl_op s1 o)) (snd (fl_op s2 o)).
Proof.
  intros HE. destruct o as [n| |data bf fills reads]; cbn [fl_op].
  - destruct (fl_read_sim CapP CapP_grow s1 s2 n HE) as [Hr HE'].
    destruct (fl_read s1 n) as [[bs1 e1] t1]; destruct (fl_read s2 n) as [[bs2 e2] t2]. cbn [fst snd] in *.
    inversion Hr; subst. split; [|exact HE']. pose proof (proj1 HE') as HW.
    unfold lobs_of, src_pos. rewrite (w_inOff _ _ _ HW), (w_outOff _ _ _ HW), (w_rd _ _ _ HW). reflexivity.
  - destruct (fl_close_sim s1 s2 HE) as [Hr HE'].
    destruct (fl_close s1) as [e1 t1]; destruct (fl_close s2) as [e2 t2]. cbn [fst snd] in *. subst e2.
    split; [|exact HE']. pose proof (proj1 HE') as HW.
    unfold lobs_of, src_pos. rewrite (w_inOff _ _ _ HW), (w_outOff _ _ _ HW), (w_rd _ _ _ HW). reflexivity.
  - destruct (fl_reset_sim s1 s2 data bf fills reads (E_cap _ _ HE) (E_capP _ _ HE)) as (t1 & t2 & R1 & R2 & HE').
    rewrite R1, R2. cbn [fst snd]. split; [|exact HE']. pose proof (proj1 HE') as HW.
    unfold lobs_of, src_pos. rewrite (w_inOff _ _ _ HW), (w_outOff _ _ _ HW), (w_rd _ _ _ HW). reflexivity.
Qed.

Lemma fl_ops_sim : forall ops s1 s2, E s1 s2 ->
  fst (fl_ops s1 ops) = fst (fl_ops s2 ops) /\ E (snd (fl_ops s1 ops)) (snd (fl_ops s2 ops)).
Proof.
  induction ops as [|o r IH]; intros s1 s2 HE; cbn [fl_ops]; [split; [reflexivity | exact HE]|].
  destruct (fl_op_sim s1 s2 o HE) as [Ho HE'].
  destruct (fl_op s1 o) as [ob1 t1]; destruct (fl_op s2 o) as [ob2 t2]. cbn [fst snd] in *. subst ob2.
  destruct (IH t1 t2 HE') as [Hr HE2].
  destruct (fl_ops t1 r) as [l1 f1]; destruct (fl_ops t2 r) as [l2 f2]. cbn [fst snd] in *. subst l2.
  split; [reflexivity | exact HE2].
Qed.

End ResetSim.

Definition CapAny : Z -> Prop := fun _ => True.
Lemma CapAny_grow : forall c, CapAny c -> (0 <= c < maxHistSize)%Z -> CapAny (Z.min maxHistSize (c * 4)).
Proof. intros; exact I. Qed.

(* the capacities the window buffer of a Reader made by NewReader can have *)
Definition Cap3 (c : Z) : Prop := (c = 4096 \/ c = 16384 \/ c = 32768)%Z.
Lemma Cap3_grow : forall c, Cap3 c -> (0 <= c < maxHistSize)%Z -> Cap3 (Z.min maxHistSize (c * 4)).
Proof. unfold Cap3, maxHistSize. intros c H Hc. lia. Qed.

(* Reset never fails *)
Theorem fl_reset_total st data bf fills reads : exists st', fl_reset st data bf fills reads = Ok st'.
Proof.
  destruct (fl_reset_sim CapAny CapAny_grow st st data bf fills reads eq_refl I) as (t1 & _ & R & _). exists t1. exact R.
Qed.

(* For EVERY state st whatsoever - in the middle of a block, failed, closed, after io.EOF, its
   decoder tables, window contents and scratch storage arbitrary - Reset(r) followed by any
   history of calls (Reads, Closes, further Resets) is observed exactly like a NEW Reader over r
   whose window buffer has the capacity of st's buffer (its contents do not matter: [arr] is any
   buffer of that length), followed by the same history: the same bytes, errors, offsets and
   source positions, call by call. *)
Theorem fl_reset_as_new st arr data bf fills reads :
  zlen arr = zlen (d_arr (f_dict st)) ->
  exists s1 s2, fl_reset st data bf fills reads = Ok s1 /\ fl_new_with arr data bf fills reads = Ok s2 /\
    forall ops, fst (fl_ops s1 ops) = fst (fl_ops s2 ops).
Proof.
  intros Hl. symmetry in Hl. destruct (dd_init_eq CapAny CapAny_grow _ _ Hl I) as (d1 & d2 & E1 & E2 & HD).
  unfold fl_reset, fl_new_with. rewrite E1, E2. eexists; eexists.
  split; [reflexivity|]. split; [reflexivity|].
  intros ops. apply (fl_ops_sim CapAny CapAny_grow). split.
  - constructor; cbn; try reflexivity. exact HD.
  - intros _. split.
    + unfold QS. cbn. intros C; discriminate.
    + unfold DI. cbn. intros C; discriminate.
Qed.

Lemma fl_new_is_with data bf fills reads :
  fl_new data bf fills reads = fl_new_with (zeros initSize) data bf fills reads.
Proof. reflexivity. Qed.

(* ... hence exactly like NewReader(r) whenever the window buffer of st still has its initial
   capacity (4096: no stream so far produced more output than that before a flush) *)
Theorem fl_reset_as_new_fresh st data bf fills reads :
  zlen (d_arr (f_dict st)) = initSize ->
  exists s1 s2, fl_reset st data bf fills reads = Ok s1 /\ fl_new data bf fills reads = Ok s2 /\
    forall ops, fst (fl_ops s1 ops) = fst (fl_ops s2 ops).
Proof.
  intros Hc. rewrite fl_new_is_with. apply fl_reset_as_new.
  rewrite Hc. apply zlen_zeros. unfold initSize. lia.
Qed.

(* two Readers with window buffers of the same capacity are indistinguishable after Reset *)
Theorem fl_reset_any_two st st' data bf fills reads :
  zlen (d_arr (f_dict st)) = zlen (d_arr (f_dict st')) ->
  exists s1 s2, fl_reset st data bf fills reads = Ok s1 /\ fl_reset st' data bf fills reads = Ok s2 /\
    forall ops, fst (fl_ops s1 ops) = fst (fl_ops s2 ops).
Proof.
  intros Hl. destruct (fl_reset_sim CapAny CapAny_grow st st' data bf fills reads Hl I) as (t1 & t2 & R1 & R2 & HE).
  exists t1, t2. split; [exact R1|]. split; [exact R2|]. intros ops. apply (fl_ops_sim CapAny CapAny_grow). exact HE.
Qed.

(* states reachable from NewReader by calls *)
Definition reachable (st : flst) : Prop :=
  exists data bf fills reads st0 ops,
    fl_new data bf fills reads = Ok st0 /\ snd (fl_ops st0 ops) = st.

(* the window buffer of a reachable Reader has one of three capacities: 4096 at first, 16384 once
   more than 4096 bytes were pending at a flush, 32768 after the next growth *)
Theorem reachable_capacity st : reachable st -> Cap3 (zlen (d_arr (f_dict st))).
Proof.
  intros (data & bf & fills & reads & st0 & ops & Hnew & <-).
  assert (HE0 : ImplLifeSim.E Cap3 st0 st0).
  { rewrite fl_new_is_with in Hnew. unfold fl_new_with in Hnew.
    assert (Hc : Cap3 (zlen (zeros initSize))) by (left; reflexivity).
    destruct (dd_init_eq Cap3 Cap3_grow (zeros initSize) (zeros initSize) eq_refl Hc) as (d1 & d2 & E1 & E2 & HD).
    rewrite E1 in E2. inversion E2; subst d2. rewrite E1 in Hnew. inversion Hnew; subst st0. split.
    - constructor; cbn; try reflexivity. exact HD.
    - intros _. split.
      + unfold QS. cbn. intros C; discriminate.
      + unfold DI. cbn. intros C; discriminate. }
  destruct (fl_ops_sim Cap3 Cap3_grow ops st0 st0 HE0) as [_ HE].
  exact (E_capP Cap3 _ _ HE).
Qed.

(* hence: Reset of a reachable Reader = a new Reader over a zeroed window buffer of 4096, 16384
   or 32768 bytes *)
Corollary fl_reset_as_new_reachable st data bf fills reads : reachable st ->
  exists c s1 s2, Cap3 c /\ c = zlen (d_arr (f_dict st)) /\
    fl_reset st data bf fills reads = Ok s1 /\
    fl_new_with (zeros c) data bf fills reads = Ok s2 /\
    forall ops, fst (fl_ops s1 ops) = fst (fl_ops s2 ops).
Proof.
  intros Hr. exists (zlen (d_arr (f_dict st))).
  destruct (fl_reset_as_new st (zeros (zlen (d_arr (f_dict st)))) data bf fills reads) as (s1 & s2 & R1 & R2 & H).
  { apply zlen_zeros. apply zlen_nonneg. }
  exists s1, s2. split; [apply reachable_capacity; exact Hr|]. split; [reflexivity|].
  split; [exact R1|]. split; [exact R2 | exact H].
Qed.

(* THE STATEMENT AS FIRST ASKED FOR: Reset of any state = NewReader, call by call. It does NOT
   hold for the Go code: the capacity of the recycled window buffer decides how much output a
   Read call can deliver at once (fl_reset_capacity_witness below). *)
Definition fl_reset_as_newreader_statement : Prop :=
  forall st data bf fills reads s1 s2,
    fl_reset st data bf fills reads = Ok s1 -> fl_new data bf fills reads = Ok s2 ->
    forall ops, fst (fl_ops s1 ops) = fst (fl_ops s2 ops).

(* At the level of whole streams it does hold (BufferedReader sources, any scripts, any two
   schedules of Read sizes): a Reader reset from ANY state with a non-empty window buffer and a
   new Reader deliver the same bytes and end with the same error - both are what RFC 1951 says. *)
Theorem fl_reset_same_stream_buffered st data fills reads fills' reads' s1 s2 sched1 sched2 obs1 obs2 fin1 fin2 e1 e2 :
  bytes_lt256 data -> d_arr (f_dict st) <> [] ->
  fl_reset st data true fills reads = Ok s1 -> fl_new data true fills' reads' = Ok s2 ->
  fl_run s1 sched1 = (obs1, fin1) -> fl_run s2 sched2 = (obs2, fin2) ->
  run_err obs1 = Some e1 -> run_err obs2 = Some e2 ->
  concat_bytes obs1 = concat_bytes obs2 /\ e1 = e2.
Proof.
  intros Hd Hne R1 R2 F1 F2 X1 X2.
  assert (S1 : start_state data true fills reads s1) by (right; exists st; split; assumption).
  assert (S2 : start_state data true fills' reads' s2) by (left; exact R2).
  destruct (flate_impl_refines_rfc1951_buffered data fills reads s1 sched1 obs1 fin1 Hd S1 F1 e1 X1) as (A1 & B1 & C1).
  destruct (flate_impl_refines_rfc1951_buffered data fills' reads' s2 sched2 obs2 fin2 Hd S2 F2 e2 X2) as (A2 & B2 & C2).
  split; [rewrite A1, A2; reflexivity|].
  destruct (Flate.Spec.ir_err (Flate.Spec.inflate data)) as [x|] eqn:Ex.
  - rewrite (C1 x eq_refl), (C2 x eq_refl). reflexivity.
  - rewrite (proj2 B1 eq_refl), (proj2 B2 eq_refl). reflexivity.
Qed.

(* ... and for both source kinds on every input RFC 1951 accepts *)
Theorem fl_reset_same_stream_valid st data bf fills reads fills' reads' s1 s2 sched1 sched2 obs1 obs2 fin1 fin2 e1 e2 :
  bytes_lt256 data -> d_arr (f_dict st) <> [] ->
  Flate.Spec.ir_err (Flate.Spec.inflate data) = None ->
  fl_reset st data bf fills reads = Ok s1 -> fl_new data bf fills' reads' = Ok s2 ->
  fl_run s1 sched1 = (obs1, fin1) -> fl_run s2 sched2 = (obs2, fin2) ->
  run_err obs1 = Some e1 -> run_err obs2 = Some e2 ->
  concat_bytes obs1 = concat_bytes obs2 /\ e1 = EEOF /\ e2 = EEOF /\
  f_inOff fin1 = f_inOff fin2 /\ s_pos (p_src (f_rd fin1)) = s_pos (p_src (f_rd fin2)).
Proof.
  intros Hd Hne Hok R1 R2 F1 F2 X1 X2.
  assert (S1 : start_state data bf fills reads s1) by (right; exists st; split; assumption).
  assert (S2 : start_state data bf fills' reads' s2) by (left; exact R2).
  destruct (flate_impl_refines_rfc1951_valid data bf fills reads s1 sched1 obs1 fin1 Hd S1 F1 Hok e1 X1)
    as (A1 & B1 & C1 & D1 & _).
  destruct (flate_impl_refines_rfc1951_valid data bf fills' reads' s2 sched2 obs2 fin2 Hd S2 F2 Hok e2 X2)
    as (A2 & B2 & C2 & D2 & _).
  split; [rewrite B1, B2; reflexivity|]. split; [exact A1|]. split; [exact A2|].
  split; [rewrite C1, C2; reflexivity | rewrite D1, D2; reflexivity].
Qed.

(* not proved: the same for ReadByte-only sources on INVALID inputs (there the refinement theorem
   leaves two possible error classes, Flate/ImplThms.v flate_impl_refines_bytereader) *)
Definition fl_reset_same_stream_bytereader_statement : Prop :=
  forall st data fills reads fills' reads' s1 s2 sched1 sched2 obs1 obs2 fin1 fin2 e1 e2,
    bytes_lt256 data -> d_arr (f_dict st) <> [] ->
    fl_reset st data false fills reads = Ok s1 -> fl_new data false fills' reads' = Ok s2 ->
    fl_run s1 sched1 = (obs1, fin1) -> fl_run s2 sched2 = (obs2, fin2) ->
    run_err obs1 = Some e1 -> run_err obs2 = Some e2 ->
    concat_bytes obs1 = concat_bytes obs2 /\ e1 = e2.

(* ================================================================================================== *)
(* Non-vacuity: concrete states                                                                        *)
(* ================================================================================================== *)
(* a final dynamic block (15-bit end-of-block code, 'a' has a 1-bit code) whose input ends after
   a few literals: harness witness minBitsWitness(1), 140 bytes *)
Definition ex_dyn : list byte :=
  [13; 225; 1; 144; 36; 73; 146; 36; 73; 178; 168; 121; 100; 245; 236; 61] ++ repeat 0 42 ++ [2] ++ repeat 0 78
  ++ [60; 33; 2].

(* "hello, world; " x 40 in six blocks with sync flushes (compress/flate output), 69 bytes *)
Definition ex_hello : list byte :=
  [202; 72; 205; 201; 201; 215; 81; 40; 207; 47; 202; 73; 177; 86; 24; 229; 13; 17; 30; 0; 0; 0; 255; 255; 34;
   133; 7; 0; 0; 0; 255; 255; 194; 198; 3; 0; 0; 0; 255; 255; 2; 241; 0; 0; 0; 0; 255; 255; 130; 243; 0; 0; 0; 0;
   255; 255; 34; 69; 14; 0; 0; 0; 255; 255; 1; 0; 0; 255; 255].

(* one fixed block: 'a', then twenty times <length 258, distance 1>: 5161 bytes from 35 *)
Definition ex_long : list byte :=
  [75; 28; 5; 163; 96; 20; 140; 130; 81; 48; 10; 70; 193; 40; 24; 5; 163; 96; 20; 140; 130; 81; 48; 10; 70; 193;
   40; 24; 5; 163; 96; 20; 140; 2; 0].

(* the Reader after the given calls on a new Reader over [data] *)
Definition after (data : list byte) (bf : bool) (ops : list flop) : option flst :=
  match fl_new data bf [] [] with
  | Ok st0 => Some (snd (fl_ops st0 ops))
  | _ => None
  end.

(* the Reader has failed in the middle of the dynamic block, five bytes delivered *)
Definition ex_mid_dyn : option flst := after ex_dyn true (map FRead [1; 1; 1; 1; 1]%nat).

(* fl_error_sticky: its hypothesis is met - the sixth Read delivers a byte AND the error ... *)
Example fl_error_sticky_example :
  match ex_mid_dyn with
  | Some st =>
    fst (fl_read st 1) = ([97], Some EUEOF) /\
    (* ... and the conclusion, computed: three more Reads, then Close *)
    map (fun o => (lo_bytes o, lo_err o, lo_inOff o, lo_outOff o, lo_srcPos o))
        (fst (fl_ops (snd (fl_read st 1)) [FRead 10; FRead 0; FRead 1; FClose; FRead 3; FClose]))
    = [([], Some EUEOF, 140, 6, 140%nat); ([], Some EUEOF, 140, 6, 140%nat); ([], Some EUEOF, 140, 6, 140%nat);
       ([], Some EUEOF, 140, 6, 140%nat); ([], Some EUEOF, 140, 6, 140%nat); ([], Some EUEOF, 140, 6, 140%nat)]%Z
  | None => False
  end.
Proof. vm_compute. split; reflexivity. Qed.

(* fl_closed_inert: a Reader with the error latched BEHIND pending output (Read(2) of "aaaaaa",
   four bytes pending, io.ErrUnexpectedEOF latched): Close drops them and returns the error *)
Example fl_closed_inert_example :
  match after ex_dyn true [FRead 2] with
  | Some st =>
    f_err st = Some EUEOF /\ length (f_toRead st) = 4%nat /\
    fst (fl_close st) = Some EUEOF /\ f_toRead (snd (fl_close st)) = []
  | None => False
  end.
Proof. vm_compute. repeat split; reflexivity. Qed.

(* ... and one that has reached io.EOF: Close returns nil, then Read returns the closed error *)
Example fl_closed_inert_example_eof :
  match after ex_hello false (repeat (FRead 1000) 7) with
  | Some st =>
    f_err st = Some EEOF /\ f_outOff st = 560%Z /\
    map (fun o => (lo_bytes o, lo_err o)) (fst (fl_ops st [FClose; FRead 5; FClose]))
    = [([], None); ([], Some EClosed); ([], None)]
  | None => False
  end.
Proof. vm_compute. repeat split; reflexivity. Qed.

(* Close in the middle of a stream: nil, nothing latched; the 434 pending bytes of the first block
   are dropped and the next Read delivers the bytes of the NEXT block: 434 of the 560 bytes
   are lost without any error (the history ends with io.EOF at OutputOffset 126) *)
Example fl_close_midstream_witness :
  match after ex_hello true [FRead 5] with
  | Some st =>
    f_err st = None /\ length (f_toRead st) = 434%nat /\ fst (fl_close st) = None /\
    map (fun o => (length (lo_bytes o), lo_err o, lo_outOff o))
        (fst (fl_ops st [FClose; FRead 1000; FRead 1000; FRead 1000; FRead 1000; FRead 1000; FRead 1000; FClose; FRead 1]))
    = [(0%nat, None, 5%Z); (44%nat, None, 49%Z); (20%nat, None, 69%Z); (4%nat, None, 73%Z); (9%nat, None, 82%Z);
       (44%nat, None, 126%Z); (0%nat, Some EEOF, 126%Z); (0%nat, None, 126%Z); (0%nat, Some EClosed, 126%Z)]
  | None => False
  end.
Proof. vm_compute. repeat split; reflexivity. Qed.

Theorem fl_closed_inert_any_state_refuted : ~ fl_closed_inert_any_state_statement.
Proof.
  intros H.
  assert (Hn : match after ex_hello true [FRead 5] with
               | Some st => length (fst (fst (fl_read (snd (fl_close st)) 1000))) = 44%nat
               | None => False
               end) by (vm_compute; reflexivity).
  destruct (after ex_hello true [FRead 5]) as [st|]; [|contradiction].
  rewrite (H st 1000%nat) in Hn. discriminate.
Qed.

(* fl_reset_as_new on a non-trivial state: the Reader that failed in the middle of the dynamic
   block (pd1 / pd2 / clenTree hold that block's tables, the window holds "aaaaa") still has a
   window buffer of 4096 bytes: after Reset it is a new Reader *)
Example fl_reset_as_new_example :
  match ex_mid_dyn with
  | Some st =>
    zlen (d_arr (f_dict st)) = initSize /\ f_trees st = TDyn /\ a_len (d_chunks (ds_dec (f_pd1 st))) = 512 /\
    firstn 6 (d_arr (f_dict st)) = [97; 97; 97; 97; 97; 97]
  | None => False
  end.
Proof. vm_compute. repeat split; reflexivity. Qed.

(* The capacity of the recycled buffer IS observable. A Reader that has delivered the 5161 bytes
   of ex_long has grown its window buffer from 4096 to 16384 bytes; after Reset onto the same
   stream one Read delivers all 5161 bytes together with io.EOF, where a new Reader delivers
   4096 bytes, then 1065. *)
Example fl_reset_capacity_witness :
  match after ex_long true [FRead (Z.to_nat 6000); FRead (Z.to_nat 6000)] with
  | Some st =>
    zlen (d_arr (f_dict st)) = 16384%Z /\ f_err st = Some EEOF /\
    map (fun o => (zlen (lo_bytes o), lo_err o))
        (fst (fl_ops st [FReset ex_long true [] []; FRead (Z.to_nat 6000); FRead (Z.to_nat 6000)]))
    = [(0, None); (5161, Some EEOF); (0, Some EEOF)]%Z /\
    match fl_new ex_long true [] [] with
    | Ok s0 => map (fun o => (zlen (lo_bytes o), lo_err o))
                   (fst (fl_ops s0 [FRead (Z.to_nat 6000); FRead (Z.to_nat 6000)]))
               = [(4096, None); (1065, Some EEOF)]%Z
    | _ => False
    end
  | None => False
  end.
Proof. vm_compute. repeat split; reflexivity. Qed.

Theorem fl_reset_as_newreader_refuted : ~ fl_reset_as_newreader_statement.
Proof.
  intros H.
  assert (Hn : match after ex_long true [FRead (Z.to_nat 6000); FRead (Z.to_nat 6000)] with
               | Some st =>
                 match fl_reset st ex_long true [] [], fl_new ex_long true [] [] with
                 | Ok s1, Ok s2 =>
                   map (fun o => zlen (lo_bytes o)) (fst (fl_ops s1 [FRead (Z.to_nat 6000)])) = [5161%Z] /\
                   map (fun o => zlen (lo_bytes o)) (fst (fl_ops s2 [FRead (Z.to_nat 6000)])) = [4096%Z]
                 | _, _ => False
                 end
               | None => False
               end) by (vm_compute; split; reflexivity).
  destruct (after ex_long true [FRead (Z.to_nat 6000); FRead (Z.to_nat 6000)]) as [st|]; [|contradiction].
  destruct (fl_reset st ex_long true [] []) as [s1| | |] eqn:R1; try contradiction.
  destruct (fl_new ex_long true [] []) as [s2| | |] eqn:R2; try contradiction.
  destruct Hn as [H1 H2].
  rewrite (H st ex_long true [] [] s1 s2 R1 R2 [FRead (Z.to_nat 6000)]) in H1.
  rewrite H1 in H2. discriminate.
Qed.

Print Assumptions fl_error_sticky.
Print Assumptions fl_close_frame.
Print Assumptions fl_closed_inert.
Print Assumptions fl_closed_inert_any_state_refuted.
Print Assumptions fl_reset_total.
Print Assumptions fl_reset_as_new.
Print Assumptions fl_reset_as_new_fresh.
Print Assumptions fl_reset_any_two.
Print Assumptions reachable_capacity.
Print Assumptions fl_reset_as_new_reachable.
Print Assumptions fl_reset_same_stream_buffered.
Print Assumptions fl_reset_same_stream_valid.
Print Assumptions fl_reset_as_newreader_refuted.
Print Assumptions fl_error_sticky_example.
Print Assumptions fl_closed_inert_example.
Print Assumptions fl_closed_inert_example_eof.
Print Assumptions fl_close_midstream_witness.
Print Assumptions fl_reset_as_new_example.
Print Assumptions fl_reset_capacity_witness.
