(* Pure (no bit reading) facts connecting the header parser of the implementation-level model
   Flate/Impl.v to the RFC 1951 specification Flate/Spec.v:

     (1) the code-length-code array  (set_vals / compact_from  vs  sort_by_sym of the pairs read)
     (2) the literal/distance split on the fly (append_code / rep_append) vs filtering afterwards
     (3) tables = trees: handle_degenerate + gen_prefixes + dec_init  vs  build_tree
         (header_tables), the end-of-block length (eob_len), min/max bits
     (4) the fixed tables decLit / decDist vs fixedLitTree / fixedDistTree *)
From Coq Require Import Sorted.
From V Require Import Base.Prelude Base.Prog Bzip2.Common Prefix.Code Prefix.GenPrefixesThms
  Prefix.ReaderImpl Prefix.DecTable Prefix.DecTableSpec Prefix.DecTableThms Prefix.DecCanonThms
  Prefix.DecGenLink Flate.Canon Flate.CanonLink Flate.Fuel.
From V Require Flate.Spec.
From V Require Import Flate.Impl.

Local Open Scope N_scope.

(* ------------------------------------------------------------------------------------------ *)
(* (1) the code-length-code array                                                              *)
(* ------------------------------------------------------------------------------------------ *)
(* the pure part of read_clens_arr: the values read are given *)
Fixpoint set_vals (order vals : list N) (arr : list N) : option (list N) :=
  match order, vals with
  | s :: r, v :: vr =>
    if 0 <? v then match list_set arr (N.to_nat s) v with Some a => set_vals r vr a | None => None end
    else set_vals r vr arr
  | _, _ => Some arr
  end.

(* what Flate.Spec.read_clens returns for the same values *)
Definition spec_cl (order vals : list N) : list (N * N) :=
  filter (fun sl => 0 <? snd sl) (combine order vals).

Lemma spec_cl_cons s r v vr :
  spec_cl (s :: r) (v :: vr) = if 0 <? v then (s, v) :: spec_cl r vr else spec_cl r vr.
Proof. unfold spec_cl. cbn [combine filter snd]. reflexivity. Qed.

Lemma spec_cl_syms order : forall vals x, In x (spec_cl order vals) -> In (fst x) order.
Proof.
  induction order as [|s r IH]; intros vals x Hin.
  - unfold spec_cl in Hin. cbn [combine filter] in Hin. destruct Hin.
  - destruct vals as [|v vr].
    + unfold spec_cl in Hin. cbn [combine filter] in Hin. destruct Hin.
    + rewrite spec_cl_cons in Hin. destruct (0 <? v).
      * destruct Hin as [<-|Hin]; [left; reflexivity | right; apply (IH vr); exact Hin].
      * right. apply (IH vr). exact Hin.
Qed.

(* insertion commutes for different symbols, whatever the list *)
Lemma insert_sorted_comm x y l : fst x <> fst y ->
  Flate.Spec.insert_sorted x (Flate.Spec.insert_sorted y l)
  = Flate.Spec.insert_sorted y (Flate.Spec.insert_sorted x l).
Proof.
  intros Hne. induction l as [|z r IH].
  - cbn [Flate.Spec.insert_sorted].
    destruct (fst x <? fst y) eqn:E1; destruct (fst y <? fst x) eqn:E2; try reflexivity; lia.
  - cbn [Flate.Spec.insert_sorted].
    destruct (fst x <? fst z) eqn:Ex; destruct (fst y <? fst z) eqn:Ey;
      cbn [Flate.Spec.insert_sorted]; rewrite ?Ex, ?Ey.
    + destruct (fst x <? fst y) eqn:E1; destruct (fst y <? fst x) eqn:E2; try reflexivity; lia.
    + replace (fst y <? fst x) with false by (symmetry; apply N.ltb_ge; lia). reflexivity.
    + replace (fst x <? fst y) with false by (symmetry; apply N.ltb_ge; lia). reflexivity.
    + rewrite IH. reflexivity.
Qed.

Lemma fold_insert_comm x L l : ~ In (fst x) (map fst l) ->
  fold_right Flate.Spec.insert_sorted (Flate.Spec.insert_sorted x L) l
  = Flate.Spec.insert_sorted x (fold_right Flate.Spec.insert_sorted L l).
Proof.
  induction l as [|y r IH]; intros Hn; cbn [fold_right]; [reflexivity|].
  cbn [map In] in Hn. rewrite IH by tauto. apply insert_sorted_comm. intros E. apply Hn. left. exact E.
Qed.

Lemma insert_sorted_head k v L : (forall s l, In (s, l) L -> k < s) ->
  Flate.Spec.insert_sorted (k, v) L = (k, v) :: L.
Proof.
  intros H. destruct L as [|[s l] t]; cbn [Flate.Spec.insert_sorted fst]; [reflexivity|].
  replace (k <? s) with true; [reflexivity|]. symmetry. apply N.ltb_lt. apply (H s l). left. reflexivity.
Qed.

Lemma compact_from_sorted_gen arr : forall i,
  (forall j, j < i -> strictly_increasing (compact_from i arr) (Some j) = true) /\
  (forall s l, In (s, l) (compact_from i arr) -> 1 <= l /\ i <= s < i + N.of_nat (length arr)).
Proof.
  induction arr as [|x r IH]; intros i; cbn [compact_from length].
  - split; [reflexivity | intros s l []].
  - destruct (IH (i + 1)) as [H1 H2]. destruct (0 <? x) eqn:Ex.
    + split.
      * intros j Hj. cbn [strictly_increasing]. rewrite H1 by lia.
        replace (j <? i) with true by (symmetry; apply N.ltb_lt; exact Hj). reflexivity.
      * intros s l [E|Hin].
        -- inversion E; subst. lia.
        -- specialize (H2 s l Hin). lia.
    + split.
      * intros j Hj. apply H1. lia.
      * intros s l Hin. specialize (H2 s l Hin). lia.
Qed.

Lemma compact_from_sorted i arr : strictly_increasing (compact_from i arr) None = true
  /\ (forall s l, In (s, l) (compact_from i arr) -> 1 <= l /\ i <= s < i + N.of_nat (length arr)).
Proof.
  split; [|apply compact_from_sorted_gen].
  destruct arr as [|x r]; cbn [compact_from]; [reflexivity|].
  destruct (compact_from_sorted_gen r (i + 1)) as [H1 _].
  destruct (0 <? x).
  - cbn [strictly_increasing]. apply H1. lia.
  - assert (H0 : forall L j, strictly_increasing L (Some j) = true -> strictly_increasing L None = true).
    { intros [|[s l] t] j; cbn [strictly_increasing]; [reflexivity|].
      intros H. apply andb_true_iff in H. rewrite (proj2 H). reflexivity. }
    apply (H0 _ i). apply H1. lia.
Qed.

(* ---- array assignment ------------------------------------------------------------------------ *)
Lemma list_set_some {A} (l : list A) : forall i x v, nth_error l i = Some x ->
  exists l', list_set l i v = Some l'.
Proof.
  induction l as [|y r IH]; intros [|i] x v H; cbn [nth_error list_set] in *; try discriminate.
  - eexists. reflexivity.
  - destruct (IH i x v H) as [r' E]. rewrite E. eexists. reflexivity.
Qed.

Lemma list_set_other {A} (l : list A) : forall i v l' j, list_set l i v = Some l' -> j <> i ->
  nth_error l' j = nth_error l j.
Proof.
  induction l as [|y r IH]; intros [|i] v l' j H Hne; cbn [list_set] in H; try discriminate.
  - inversion H; subst. destruct j as [|j]; [contradiction | reflexivity].
  - destruct (list_set r i v) as [r'|] eqn:E; [|discriminate]. inversion H; subst.
    destruct j as [|j]; [reflexivity|]. cbn [nth_error]. apply (IH i v r' j E). intros ->. apply Hne. reflexivity.
Qed.

Lemma compact_from_set arr : forall k i v arr',
  list_set arr k v = Some arr' -> nth_error arr k = Some 0 -> (0 <? v) = true ->
  compact_from i arr' = Flate.Spec.insert_sorted (i + N.of_nat k, v) (compact_from i arr).
Proof.
  induction arr as [|x r IH]; intros [|k] i v arr' Hs Hn Hv; cbn [list_set nth_error] in Hs, Hn;
    try discriminate.
  - inversion Hs; subst arr'. inversion Hn; subst x. cbn [compact_from]. rewrite Hv.
    change (0 <? 0) with false. cbv iota. rewrite N.add_0_r. symmetry. apply insert_sorted_head.
    intros s l Hin. destruct (compact_from_sorted_gen r (i + 1)) as [_ H2]. specialize (H2 s l Hin). lia.
  - destruct (list_set r k v) as [r'|] eqn:E; [|discriminate]. inversion Hs; subst arr'.
    cbn [compact_from]. rewrite (IH k (i + 1) v r' E Hn Hv).
    replace (i + 1 + N.of_nat k) with (i + N.of_nat (S k)) by lia.
    destruct (0 <? x); [|reflexivity].
    cbn [Flate.Spec.insert_sorted fst].
    replace (i + N.of_nat (S k) <? i) with false by (symmetry; apply N.ltb_ge; lia). reflexivity.
Qed.

(* the array after the loop, compacted, is the sorted list of the non-zero pairs *)
Lemma set_vals_compact order : forall vals arr,
  NoDup order -> (forall s, In s order -> nth_error arr (N.to_nat s) = Some 0) ->
  exists arr', set_vals order vals arr = Some arr' /\
    compact_from 0 arr' = fold_right Flate.Spec.insert_sorted (compact_from 0 arr) (spec_cl order vals).
Proof.
  induction order as [|s r IH]; intros vals arr Hnd Hz.
  - exists arr. split; [reflexivity|]. unfold spec_cl. cbn [combine filter fold_right]. reflexivity.
  - destruct vals as [|v vr].
    + exists arr. split; [reflexivity|]. unfold spec_cl. cbn [combine filter fold_right]. reflexivity.
    + inversion Hnd as [|? ? Hnin Hnd']; subst. rewrite spec_cl_cons. cbn [set_vals].
      destruct (0 <? v) eqn:Ev.
      * destruct (list_set_some arr (N.to_nat s) 0 v (Hz s (or_introl eq_refl))) as [arr1 E1].
        rewrite E1.
        destruct (IH vr arr1 Hnd') as (arr' & E' & Hc).
        { intros s' Hs'. rewrite (list_set_other arr _ v arr1 (N.to_nat s') E1).
          - apply Hz. right. exact Hs'.
          - intros E. apply N2Nat.inj in E. subst s'. contradiction. }
        exists arr'. split; [exact E'|]. rewrite Hc. cbn [fold_right].
        rewrite (compact_from_set arr (N.to_nat s) 0 v arr1 E1 (Hz s (or_introl eq_refl)) Ev).
        rewrite N.add_0_l, N2Nat.id. apply fold_insert_comm. cbn [fst].
        intros Hin. apply in_map_iff in Hin. destruct Hin as (x & Ex & Hx).
        apply spec_cl_syms in Hx. rewrite Ex in Hx. contradiction.
      * destruct (IH vr arr Hnd') as (arr' & E' & Hc).
        { intros s' Hs'. apply Hz. right. exact Hs'. }
        exists arr'. split; [exact E' | exact Hc].
Qed.

Lemma NoDup_firstn {A} n : forall l : list A, NoDup l -> NoDup (firstn n l).
Proof.
  induction n as [|n IH]; intros [|x r] H; cbn [firstn]; try constructor.
  - inversion H as [|? ? Hn Hr]; subst. intros Hin. apply Hn. revert Hin. clear.
    revert r. induction n as [|n IH]; intros [|y r]; cbn [firstn In]; try tauto.
    intros [->|H]; [left; reflexivity | right; apply IH; exact H].
  - inversion H; subst. apply IH. assumption.
Qed.

Lemma In_firstn {A} n : forall (l : list A) x, In x (firstn n l) -> In x l.
Proof.
  induction n as [|n IH]; intros [|y r] x; cbn [firstn In]; try tauto.
  intros [->|H]; [left; reflexivity | right; apply IH; exact H].
Qed.

Lemma clenLens_nodup : NoDup clenLens.
Proof.
  apply (NoDup_map_inv N.to_nat).
  assert (E : map N.to_nat clenLens = [16;17;18;0;8;7;9;6;10;5;11;4;12;3;13;2;14;1;15]%nat) by reflexivity.
  rewrite E. repeat (constructor; [cbn [In]; lia|]). constructor.
Qed.

Lemma clenLens_lt s : In s clenLens -> s < 19.
Proof.
  unfold clenLens, Flate.Spec.clenLens. cbn [In]. intros H.
  repeat (destruct H as [<-|H]; [lia|]). destruct H.
Qed.

Lemma clens_compact n vals : (n <= 19)%nat -> length vals = n ->
  exists arr, set_vals (firstn n clenLens) vals (repeat 0 19%nat) = Some arr /\
    compact_from 0 arr = Flate.Spec.sort_by_sym (spec_cl (firstn n clenLens) vals).
Proof.
  intros _ _.
  destruct (set_vals_compact (firstn n clenLens) vals (repeat 0 19%nat)) as (arr & E & Hc).
  - apply NoDup_firstn. exact clenLens_nodup.
  - intros s Hs. apply In_firstn in Hs. apply clenLens_lt in Hs. apply nth_error_repeat. lia.
  - exists arr. split; [exact E|]. rewrite Hc. reflexivity.
Qed.

(* ------------------------------------------------------------------------------------------ *)
(* (2) the literal/distance split                                                              *)
(* ------------------------------------------------------------------------------------------ *)
Definition lits_of (numLit : N) (acc : list (N * N)) := filter (fun sl => fst sl <? numLit) acc.
Definition dists_of (numLit : N) (acc : list (N * N)) :=
  map (fun sl => (fst sl - numLit, snd sl)) (filter (fun sl => negb (fst sl <? numLit)) acc).
Definition split_ok (numLit : N) (s : cls) (acc : list (N * N)) : Prop :=
  c_lits s = lits_of numLit acc /\ c_dists s = dists_of numLit acc.

Lemma append_code_split numLit s acc sym clen : split_ok numLit s acc ->
  split_ok numLit (append_code numLit s sym clen) ((sym, clen) :: acc) /\
  c_sym' (append_code numLit s sym clen) = c_sym' s /\ c_last (append_code numLit s sym clen) = c_last s.
Proof.
  intros [H1 H2]. unfold append_code, split_ok, lits_of, dists_of. cbn [filter fst snd].
  destruct (sym <? numLit) eqn:E; cbn [negb map fst snd c_lits c_dists c_sym' c_last];
    rewrite H1, H2; repeat split; reflexivity.
Qed.

Lemma rep_append_split n numLit s acc sym clen : split_ok numLit s acc ->
  split_ok numLit (rep_append n numLit s sym clen) (Flate.Spec.rep_codes n sym clen acc) /\
  c_sym' (rep_append n numLit s sym clen) = c_sym' s /\ c_last (rep_append n numLit s sym clen) = c_last s.
Proof.
  revert s acc sym. induction n as [|n IH]; intros s acc sym H; cbn [rep_append Flate.Spec.rep_codes].
  - repeat split; try reflexivity; apply H.
  - destruct (append_code_split numLit s acc sym clen H) as (Ha & Es & El).
    destruct (IH _ _ (sym + 1) Ha) as (Hb & Es' & El').
    split; [exact Hb|]. split; [rewrite Es'; exact Es | rewrite El'; exact El].
Qed.

Lemma filter_rev' {A} (f : A -> bool) l : filter f (rev l) = rev (filter f l).
Proof.
  induction l as [|x r IH]; [reflexivity|]. cbn [rev filter]. rewrite filter_app, IH. cbn [filter].
  destruct (f x); cbn [rev]; [reflexivity | apply app_nil_r].
Qed.

Lemma lits_of_rev numLit acc : fast_rev (lits_of numLit acc) = lits_of numLit (fast_rev acc).
Proof. unfold lits_of. rewrite !fast_rev_eq, filter_rev'. reflexivity. Qed.

Lemma dists_of_rev numLit acc : fast_rev (dists_of numLit acc) = dists_of numLit (fast_rev acc).
Proof. unfold dists_of. rewrite !fast_rev_eq, filter_rev', map_rev. reflexivity. Qed.

(* ---- sortedness -------------------------------------------------------------------------------- *)
Lemma SS_app {A} (R : A -> A -> Prop) l1 l2 :
  StronglySorted R l1 -> StronglySorted R l2 -> (forall x y, In x l1 -> In y l2 -> R x y) ->
  StronglySorted R (l1 ++ l2).
Proof.
  induction l1 as [|a r IH]; intros H1 H2 H; [exact H2|]. cbn [app].
  apply StronglySorted_inv in H1. destruct H1 as [H1 Ha]. constructor.
  - apply IH; [exact H1 | exact H2 |]. intros x y Hx Hy. apply H; [right; exact Hx | exact Hy].
  - apply Forall_app. split; [exact Ha|]. apply Forall_forall. intros y Hy. apply H; [left; reflexivity | exact Hy].
Qed.

Lemma desc_below_sorted : forall acc b, desc_below b acc ->
  StronglySorted N.lt (map fst (rev acc)) /\ (forall x, In x acc -> fst x < b).
Proof.
  induction acc as [|[s x] r IH]; intros b H; cbn [desc_below] in H.
  - split; [constructor | intros x []].
  - destruct H as [H1 H2]. destruct (IH s H2) as [S1 B1]. split.
    + cbn [rev]. rewrite map_app. apply SS_app; [exact S1 | cbn [map fst]; constructor; constructor |].
      intros a y Ha Hy. cbn [map fst In] in Hy. destruct Hy as [<-|[]].
      apply in_map_iff in Ha. destruct Ha as (e & <- & He). apply in_rev in He. apply B1. exact He.
    + intros e [<-|He]; [exact H1|]. specialize (B1 e He). lia.
Qed.

Lemma SS_filter (f : N * N -> bool) l :
  StronglySorted N.lt (map fst l) -> StronglySorted N.lt (map fst (filter f l)).
Proof.
  induction l as [|x r IH]; intros H; cbn [filter map]; [constructor|].
  cbn [map] in H. apply StronglySorted_inv in H. destruct H as [H1 H2].
  destruct (f x); [|apply IH; exact H1]. cbn [map]. constructor; [apply IH; exact H1|].
  apply Forall_forall. intros y Hy. rewrite Forall_forall in H2. apply H2.
  apply in_map_iff in Hy. destruct Hy as (e & <- & He). apply filter_In in He.
  apply in_map. exact (proj1 He).
Qed.

Lemma SS_shift k (l : list (N * N)) :
  StronglySorted N.lt (map fst l) -> (forall x, In x l -> k <= fst x) ->
  StronglySorted N.lt (map fst (map (fun sl => (fst sl - k, snd sl)) l)).
Proof.
  induction l as [|x r IH]; intros H Hk; cbn [map]; [constructor|].
  cbn [map] in H. apply StronglySorted_inv in H. destruct H as [H1 H2]. constructor.
  - apply IH; [exact H1|]. intros y Hy. apply Hk. right. exact Hy.
  - cbn [fst]. apply Forall_forall. intros y Hy. rewrite map_map in Hy. cbn [fst] in Hy.
    apply in_map_iff in Hy. destruct Hy as (e & <- & He).
    rewrite Forall_forall in H2. specialize (H2 (fst e) (in_map fst _ _ He)).
    pose proof (Hk x (or_introl eq_refl)). pose proof (Hk e (or_intror He)). lia.
Qed.

Lemma desc_below_lists b numLit acc : Flate.CanonLink.desc_below b acc -> numLit <= b ->
  (forall s l, In (s, l) acc -> 1 <= l <= 15) ->
  let lits := lits_of numLit (fast_rev acc) in
  let dists := dists_of numLit (fast_rev acc) in
  strictly_increasing lits None = true /\ strictly_increasing dists None = true /\
  (forall s l, In (s, l) lits -> 1 <= l <= 15 /\ s < numLit) /\
  (forall s l, In (s, l) dists -> 1 <= l <= 15 /\ s < b - numLit).
Proof.
  intros Hd Hb Hl lits dists. subst lits dists. unfold lits_of, dists_of. rewrite fast_rev_eq.
  destruct (desc_below_sorted acc b Hd) as [HS HB].
  split; [|split; [|split]].
  - apply strictly_increasing_iff. apply SS_filter. exact HS.
  - apply strictly_increasing_iff. apply SS_shift; [apply SS_filter; exact HS|].
    intros x Hx. apply filter_In in Hx. destruct Hx as [_ Hx].
    apply negb_true_iff, N.ltb_ge in Hx. exact Hx.
  - intros s l Hin. apply filter_In in Hin. destruct Hin as [Hin Hf]. cbn [fst] in Hf.
    apply in_rev in Hin. apply N.ltb_lt in Hf. split; [apply (Hl s l Hin) | exact Hf].
  - intros s l Hin. apply in_map_iff in Hin. destruct Hin as ([s0 l0] & E & Hin).
    cbn [fst snd] in E. inversion E; subst. apply filter_In in Hin. destruct Hin as [Hin Hf].
    cbn [fst] in Hf. apply negb_true_iff, N.ltb_ge in Hf. apply in_rev in Hin.
    split; [apply (Hl s0 l Hin)|]. specialize (HB _ Hin). cbn [fst] in HB. lia.
Qed.

(* ------------------------------------------------------------------------------------------ *)
(* (3) tables = trees                                                                          *)
(* ------------------------------------------------------------------------------------------ *)
Lemma build_tree_two lens fake : (2 <= length lens)%nat ->
  Flate.Spec.build_tree lens fake
  = if Flate.Spec.complete lens then Some (Flate.Spec.tree_of lens) else None.
Proof. destruct lens as [|x [|y r]]; cbn [length]; intros H; try lia. reflexivity. Qed.

Lemma handle_degenerate_two lens fake : (2 <= length lens)%nat -> handle_degenerate lens fake = lens.
Proof. destruct lens as [|x [|y r]]; cbn [length]; intros H; try lia. reflexivity. Qed.

(* two codes or more: GeneratePrefixes accepts exactly the complete assignments, and then
   Decoder.Init builds correct tables for the canonical code *)
Lemma tables_two el oldC oldL :
  (2 <= length el)%nat -> strictly_increasing el None = true ->
  (forall s l, In (s, l) el -> 1 <= l <= 15 /\ s < 2 ^ 27) ->
  NoDup (map fst el) /\ lens_pos el /\ Flate.Spec.max_len el <= 15 /\
  if Flate.Spec.complete el
  then exists codes d, gen_prefixes el = GPOk codes /\ dec_init oldC oldL codes = IOk d /\
         codes = canon_codes el /\ dec_valid 27 codes /\ zero_min codes /\ tables_ok codes d
  else gen_prefixes el = GPInvalid.
Proof.
  intros H2 Hs Hb.
  assert (Hp : lens_pos el) by (intros s l Hin; apply (Hb s l Hin)).
  split; [|split; [exact Hp|split]].
  - apply StronglySorted_lt_NoDup. apply strictly_increasing_iff. exact Hs.
  - apply max_len_le. intros s l Hin. apply (Hb s l Hin).
  - destruct (Flate.Spec.complete el) eqn:Ec.
    + destruct (gen_prefixes_accepts el H2 Hs Hp Ec) as (out & E & HVC & Elens).
      assert (H27 : forall s l, In (s, l) el -> l <= 27).
      { intros s l Hin. pose proof (Hb s l Hin). lia. }
      destruct (gen_prefixes_table_valid el out H2 E H27) as (HV & HZ & _).
      destruct (dec_table_correct 27 out oldC oldL ltac:(lia) HV) as (d & Ed & HT & _).
      exists out, d. split; [exact E|]. split; [exact Ed|]. split; [|split; [exact HV|split; [exact HZ | exact HT]]].
      apply of_canonical_eq.
      * rewrite <- Elens. exact (vc_canonical out HVC).
      * intros e He. exact (vc_val_lt out HVC e He).
    + apply gen_prefixes_invalid_iff; [exact H2|]. intros (_ & _ & Hc). rewrite Ec in Hc. discriminate.
Qed.

Theorem header_tables lens fake oldC oldL :
  strictly_increasing lens None = true ->
  (forall s l, In (s, l) lens -> 1 <= l <= 15 /\ s < fake) -> fake < 2 ^ 27 ->
  match Flate.Spec.build_tree lens fake with
  | None => gen_prefixes (handle_degenerate lens fake) = GPInvalid
  | Some t =>
    exists codes d,
      gen_prefixes (handle_degenerate lens fake) = GPOk codes /\ dec_init oldC oldL codes = IOk d /\
      ((lens = [] /\ t = Flate.Spec.HEmpty /\ codes = [] /\ d = empty_dec) \/
       (let el := handle_degenerate lens fake in
        (2 <= length el)%nat /\ NoDup (map fst el) /\ lens_pos el /\ Flate.Spec.complete el = true /\
        Flate.Spec.max_len el <= 15 /\ (forall s l, In (s, l) el -> s < 2 ^ 27) /\
        t = Flate.Spec.tree_of el /\ codes = canon_codes el /\
        dec_valid 27 codes /\ zero_min codes /\ tables_ok codes d))
  end.
Proof.
  intros Hs Hb Hf.
  assert (Hgen : forall el, (2 <= length el)%nat -> strictly_increasing el None = true ->
            (forall s l, In (s, l) el -> 1 <= l <= 15 /\ s < 2 ^ 27) ->
            match (if Flate.Spec.complete el then Some (Flate.Spec.tree_of el) else None) with
            | None => gen_prefixes el = GPInvalid
            | Some t =>
              exists codes d, gen_prefixes el = GPOk codes /\ dec_init oldC oldL codes = IOk d /\
                ((lens = [] /\ t = Flate.Spec.HEmpty /\ codes = [] /\ d = empty_dec) \/
                 ((2 <= length el)%nat /\ NoDup (map fst el) /\ lens_pos el /\ Flate.Spec.complete el = true /\
                  Flate.Spec.max_len el <= 15 /\ (forall s l, In (s, l) el -> s < 2 ^ 27) /\
                  t = Flate.Spec.tree_of el /\ codes = canon_codes el /\
                  dec_valid 27 codes /\ zero_min codes /\ tables_ok codes d))
            end).
  { intros el H2 Hs' Hb'.
    destruct (tables_two el oldC oldL H2 Hs' Hb') as (Hnd & Hp & Hm & Hc).
    destruct (Flate.Spec.complete el) eqn:Ec; [|exact Hc].
    destruct Hc as (codes & d & E & Ed & Ecodes & HV & HZ & HT).
    exists codes, d. split; [exact E|]. split; [exact Ed|]. right.
    split; [exact H2|]. split; [exact Hnd|]. split; [exact Hp|]. split; [reflexivity|].
    split; [exact Hm|]. split; [intros s l Hin; apply (Hb' s l Hin)|]. split; [reflexivity|].
    split; [exact Ecodes|]. split; [exact HV|]. split; [exact HZ | exact HT]. }
  destruct lens as [|[s0 l0] [|y r]].
  - cbn [Flate.Spec.build_tree handle_degenerate].
    exists [], empty_dec. split; [reflexivity|]. split; [reflexivity|]. left. repeat split; reflexivity.
  - cbn [Flate.Spec.build_tree handle_degenerate].
    destruct (Hb s0 l0 (or_introl eq_refl)) as [Hl0 Hs0].
    apply Hgen.
    + cbn [length]. lia.
    + cbn [strictly_increasing]. replace (s0 <? fake) with true by (symmetry; apply N.ltb_lt; exact Hs0).
      reflexivity.
    + intros s l [E|[E|[]]]; inversion E; subst; lia.
  - rewrite build_tree_two, handle_degenerate_two by (cbn [length]; lia).
    apply Hgen.
    + cbn [length]. lia.
    + exact Hs.
    + intros s l Hin. specialize (Hb s l Hin). lia.
Qed.

(* ---- the end-of-block length, MinBits / MaxBits ------------------------------------------------ *)
Definition sl_of (c : pcode) : N * N := (c_sym c, c_len c).

Lemma canon_codes_sl el : map sl_of (canon_codes el) = el.
Proof.
  unfold canon_codes. rewrite map_map. rewrite <- (canonical_fst el) at 2.
  apply map_ext. intros [[s l] c]. reflexivity.
Qed.

Lemma eob_len_some_gen cs l :
  (forall c, In c cs -> 1 <= c_len c) -> NoDup (map c_sym cs) ->
  (eob_len cs = Some l <-> In (256, l) (map sl_of cs)).
Proof.
  induction cs as [|c r IH]; intros Hp Hnd; cbn [eob_len map In].
  - split; [discriminate | tauto].
  - cbn [map] in Hnd. inversion Hnd as [|? ? Hn Hr]; subst.
    assert (Hp' : forall c', In c' r -> 1 <= c_len c') by (intros c' Hc'; apply Hp; right; exact Hc').
    specialize (IH Hp' Hr).
    pose proof (Hp c (or_introl eq_refl)) as Hc.
    destruct (c_sym c =? 256) eqn:Es.
    + apply N.eqb_eq in Es. replace (0 <? c_len c) with true by (symmetry; apply N.ltb_lt; lia).
      cbn [andb]. unfold sl_of at 1. rewrite Es. split.
      * intros E. inversion E. left. reflexivity.
      * intros [E|Hin]; [inversion E; reflexivity|]. exfalso. apply Hn.
        apply in_map_iff in Hin. destruct Hin as (c' & E' & Hc'). unfold sl_of in E'. inversion E'.
        apply in_map_iff. exists c'. split; [congruence | exact Hc'].
    + cbn [andb]. rewrite IH. apply N.eqb_neq in Es. split; [tauto|].
      intros [E|Hin]; [|exact Hin]. unfold sl_of in E. inversion E. contradiction.
Qed.

Lemma eob_len_none_gen cs :
  (forall c, In c cs -> 1 <= c_len c) -> (eob_len cs = None <-> ~ In 256 (map c_sym cs)).
Proof.
  induction cs as [|c r IH]; intros Hp; cbn [eob_len map In].
  - tauto.
  - assert (Hp' : forall c', In c' r -> 1 <= c_len c') by (intros c' Hc'; apply Hp; right; exact Hc').
    specialize (IH Hp'). pose proof (Hp c (or_introl eq_refl)) as Hc.
    destruct (c_sym c =? 256) eqn:Es.
    + apply N.eqb_eq in Es. replace (0 <? c_len c) with true by (symmetry; apply N.ltb_lt; lia).
      cbn [andb]. split; [discriminate | intros H; exfalso; apply H; left; exact Es].
    + cbn [andb]. rewrite IH. apply N.eqb_neq in Es. tauto.
Qed.

Lemma canon_codes_len_pos el : lens_pos el -> forall c, In c (canon_codes el) -> 1 <= c_len c.
Proof.
  intros Hp c Hc. apply (Hp (c_sym c) (c_len c)). rewrite <- (canon_codes_sl el) at 1.
  apply (in_map sl_of). exact Hc.
Qed.

Lemma eob_len_spec el l : NoDup (map fst el) -> lens_pos el ->
  (eob_len (fast_rev (canon_codes el)) = Some l <-> In (256, l) el).
Proof.
  intros Hnd Hp. rewrite fast_rev_eq. rewrite eob_len_some_gen.
  - rewrite map_rev, <- in_rev, canon_codes_sl. tauto.
  - intros c Hc. apply in_rev in Hc. apply (canon_codes_len_pos el Hp c Hc).
  - rewrite map_rev. apply NoDup_rev.
    replace (map c_sym (canon_codes el)) with (map fst el); [exact Hnd|].
    rewrite <- (canon_codes_sl el) at 1. rewrite map_map. reflexivity.
Qed.

Lemma eob_len_none el : lens_pos el ->
  (eob_len (fast_rev (canon_codes el)) = None <-> ~ In 256 (map fst el)).
Proof.
  intros Hp. rewrite fast_rev_eq. rewrite eob_len_none_gen.
  - rewrite map_rev, <- in_rev.
    replace (map c_sym (canon_codes el)) with (map fst el); [tauto|].
    rewrite <- (canon_codes_sl el) at 1. rewrite map_map. reflexivity.
  - intros c Hc. apply in_rev in Hc. apply (canon_codes_len_pos el Hp c Hc).
Qed.

Lemma canon_len_bounds el s l : (2 <= length el)%nat -> In (s, l) el ->
  min_bits (canon_codes el) <= l /\ l <= max_bits (canon_codes el).
Proof.
  intros _ Hin. rewrite <- (canon_codes_sl el) in Hin. apply in_map_iff in Hin.
  destruct Hin as (c & E & Hc). unfold sl_of in E. inversion E; subst.
  split; [apply min_bits_le; exact Hc | apply max_bits_ge; exact Hc].
Qed.

(* ------------------------------------------------------------------------------------------ *)
(* (4) the fixed tables                                                                         *)
(* ------------------------------------------------------------------------------------------ *)
Lemma fixed_lit_lens_eq : fixed_lit_lens = Flate.Spec.fixedLitLens.
Proof. vm_compute. reflexivity. Qed.

Lemma fixed_dist_lens_eq : fixed_dist_lens = Flate.Spec.fixedDistLens.
Proof. vm_compute. reflexivity. Qed.

Definition lens_check (fake : N) (lens : list (N * N)) : bool :=
  forallb (fun sl => (1 <=? snd sl) && (snd sl <=? 15) && (fst sl <? fake)) lens.

Lemma lens_check_sound fake lens : lens_check fake lens = true ->
  forall s l, In (s, l) lens -> 1 <= l <= 15 /\ s < fake.
Proof.
  intros H s l Hin. unfold lens_check in H. rewrite forallb_forall in H. specialize (H _ Hin).
  cbn [fst snd] in H. lia.
Qed.

(* any table built at package initialisation from a complete assignment with >= 2 codes *)
Lemma fixed_tables lens fake :
  (2 <= length lens)%nat -> strictly_increasing lens None = true -> lens_check fake lens = true ->
  fake < 2 ^ 27 -> Flate.Spec.complete lens = true ->
  exists d, fixed_dec lens = IOk d /\
    NoDup (map fst lens) /\ lens_pos lens /\ Flate.Spec.max_len lens <= 15 /\
    dec_valid 27 (canon_codes lens) /\ zero_min (canon_codes lens) /\ tables_ok (canon_codes lens) d /\
    d_minBits d = min_bits (canon_codes lens).
Proof.
  intros H2 Hs Hc Hf Hcomp.
  pose proof (header_tables lens fake (fun _ => 0) (fun _ => 0) Hs (lens_check_sound fake lens Hc) Hf) as H.
  rewrite build_tree_two, handle_degenerate_two, Hcomp in H by exact H2.
  destruct H as (codes & d & E & Ed & [(E0 & _)|H]).
  { subst lens. cbn [length] in H2. lia. }
  cbv zeta in H. destruct H as (_ & Hnd & Hp & _ & Hm & _ & _ & Ecodes & HV & HZ & HT).
  exists d. unfold fixed_dec. rewrite E. split; [exact Ed|]. subst codes.
  repeat (split; [assumption|]). apply (to_min _ _ HT).
Qed.

Theorem fixed_lit_tables : exists d, decLit = IOk d /\
  let el := Flate.Spec.fixedLitLens in
  (2 <= length el)%nat /\ NoDup (map fst el) /\ lens_pos el /\ Flate.Spec.complete el = true /\
  Flate.Spec.max_len el <= 15 /\ Flate.Spec.fixedLitTree = Flate.Spec.tree_of el /\
  dec_valid 27 (canon_codes el) /\ zero_min (canon_codes el) /\ tables_ok (canon_codes el) d /\
  d_minBits d = 7 /\ In (256, 7) el.
Proof.
  assert (H2 : (2 <= length Flate.Spec.fixedLitLens)%nat).
  { unfold Flate.Spec.fixedLitLens. rewrite map_length, seq_length. lia. }
  assert (Hcomp : Flate.Spec.complete Flate.Spec.fixedLitLens = true) by (vm_compute; reflexivity).
  destruct (fixed_tables Flate.Spec.fixedLitLens 288 H2) as (d & E & Hnd & Hp & Hm & HV & HZ & HT & Emin);
    try (vm_compute; reflexivity).
  exists d. unfold decLit. rewrite fixed_lit_lens_eq. split; [exact E|]. cbv zeta.
  do 9 (split; [first [assumption | reflexivity]|]).
  split; [rewrite Emin; vm_compute; reflexivity|].
  unfold Flate.Spec.fixedLitLens. apply in_map_iff. exists 256%nat. split; [reflexivity|].
  apply in_seq. lia.
Qed.

Theorem fixed_dist_tables : exists d, decDist = IOk d /\
  let el := Flate.Spec.fixedDistLens in
  (2 <= length el)%nat /\ NoDup (map fst el) /\ lens_pos el /\ Flate.Spec.complete el = true /\
  Flate.Spec.max_len el <= 15 /\ Flate.Spec.fixedDistTree = Flate.Spec.tree_of el /\
  dec_valid 27 (canon_codes el) /\ zero_min (canon_codes el) /\ tables_ok (canon_codes el) d /\
  d_minBits d = 5.
Proof.
  assert (H2 : (2 <= length Flate.Spec.fixedDistLens)%nat).
  { unfold Flate.Spec.fixedDistLens. rewrite map_length, seq_length. lia. }
  assert (Hcomp : Flate.Spec.complete Flate.Spec.fixedDistLens = true) by (vm_compute; reflexivity).
  destruct (fixed_tables Flate.Spec.fixedDistLens 32 H2) as (d & E & Hnd & Hp & Hm & HV & HZ & HT & Emin);
    try (vm_compute; reflexivity).
  exists d. unfold decDist. rewrite fixed_dist_lens_eq. split; [exact E|]. cbv zeta.
  do 9 (split; [first [assumption | reflexivity]|]).
  rewrite Emin. vm_compute. reflexivity.
Qed.

(* ---- non-vacuity ------------------------------------------------------------------------------- *)
(* a dynamic header with three literal codes; a degenerate one-code distance tree (completed with
   the fake symbol 30); an incomplete assignment is refused by both sides *)
Example header_tables_ex3 :
  Flate.Spec.build_tree [(65, 1); (66, 2); (256, 2)] 286 = Some (Flate.Spec.tree_of [(65, 1); (66, 2); (256, 2)]) /\
  gen_prefixes (handle_degenerate [(65, 1); (66, 2); (256, 2)] 286) = GPOk [(65, 1, 0); (66, 2, 1); (256, 2, 3)] /\
  eob_len (fast_rev (canon_codes [(65, 1); (66, 2); (256, 2)])) = Some 2.
Proof. vm_compute. repeat split; reflexivity. Qed.

Example header_tables_ex1 :
  Flate.Spec.build_tree [(5, 1)] 30 = Some (Flate.Spec.tree_of [(5, 1); (30, 1)]) /\
  gen_prefixes (handle_degenerate [(5, 1)] 30) = GPOk [(5, 1, 0); (30, 1, 1)].
Proof. vm_compute. repeat split; reflexivity. Qed.

Example header_tables_ex_bad :
  Flate.Spec.build_tree [(0, 2); (1, 2); (2, 2)] 286 = None /\
  gen_prefixes (handle_degenerate [(0, 2); (1, 2); (2, 2)] 286) = GPInvalid.
Proof. vm_compute. repeat split; reflexivity. Qed.

Example clens_compact_ex :
  set_vals (firstn 4 clenLens) [3; 0; 2; 1] (repeat 0 19%nat)
  = Some [1;0;0;0;0;0;0;0;0;0;0;0;0;0;0;0;3;0;2] /\
  Flate.Spec.sort_by_sym (spec_cl (firstn 4 clenLens) [3; 0; 2; 1]) = [(0, 1); (16, 3); (18, 2)].
Proof. vm_compute. split; reflexivity. Qed.

Print Assumptions clens_compact.
Print Assumptions compact_from_sorted.
Print Assumptions append_code_split.
Print Assumptions rep_append_split.
Print Assumptions lits_of_rev.
Print Assumptions dists_of_rev.
Print Assumptions desc_below_lists.
Print Assumptions header_tables.
Print Assumptions eob_len_spec.
Print Assumptions eob_len_none.
Print Assumptions canon_len_bounds.
Print Assumptions fixed_lit_lens_eq.
Print Assumptions fixed_dist_lens_eq.
Print Assumptions fixed_lit_tables.
Print Assumptions fixed_dist_tables.
