(* The loop budgets of the RFC 1951 decoder model are sufficient: started on an
   input of fewer than 2^depth bits, [inflate_prog depth] never ends in EFuel.
   Every loop iteration that continues consumes at least one input bit (the
   decoding trees are never a bare leaf: a complete code has no zero length), and
   the code-length loop advances its symbol counter. With Flate/Safe.v: the
   decoder model ends, on EVERY input, in success, UnexpectedEOF or Corrupted. *)
From V Require Import Base.Prelude Base.Prog Base.ProgThms Base.OkThms Base.FuelThms
  Flate.Spec Flate.Safe.

(* ---- decoding trees are not bare leaves ------------------------------------------ *)
Definition nonleaf (t : htree) : Prop := match t with HLeaf _ => False | _ => True end.

Lemma tree_insert_node t bits s : bits <> [] -> exists l r, tree_insert t bits s = HNode l r.
Proof.
  intros H. destruct bits as [|b r]; [contradiction|]. cbn [tree_insert].
  destruct t; destruct b; eauto.
Qed.

Lemma msb_bits_length n v : length (msb_bits n v) = n.
Proof. unfold msb_bits. rewrite fast_rev_eq, rev_length. apply val_bits_length. Qed.

Lemma assign_codes_lens lens next :
  forall s l c, In (s, l, c) (assign_codes lens next) -> In (s, l) lens.
Proof.
  revert next; induction lens as [|[s0 l0] lens IH]; intros next s l c H; cbn [assign_codes] in H.
  - contradiction.
  - destruct H as [H|H]; [inversion H; subst; left; reflexivity | right; eapply IH; exact H].
Qed.

Lemma fold_insert_nonleaf (cs : list (N * N * N)) : forall t,
  (forall s l c, In (s, l, c) cs -> l <> 0) -> nonleaf t ->
  nonleaf (fold_left (fun t slc => let '(s, l, c) := slc in tree_insert t (msb_bits (N.to_nat l) c) s) cs t).
Proof.
  induction cs as [|[[s l] c] cs IH]; intros t Hz Ht; cbn [fold_left]; [exact Ht|].
  apply IH; [intros s' l' c' Hin; apply (Hz s' l' c'); right; exact Hin|].
  assert (Hl : l <> 0) by (apply (Hz s l c); left; reflexivity).
  destruct (tree_insert_node t (msb_bits (N.to_nat l) c) s) as [a [b E]].
  - intros E. apply (f_equal (@length bool)) in E. rewrite msb_bits_length in E. cbn in E. lia.
  - rewrite E. exact I.
Qed.

Lemma tree_of_nonleaf lens : (forall s l, In (s, l) lens -> l <> 0) -> nonleaf (tree_of lens).
Proof.
  intros Hz. unfold tree_of, canonical. apply fold_insert_nonleaf; [|exact I].
  intros s l c Hin. apply (Hz s l). eapply assign_codes_lens. exact Hin.
Qed.

(* a complete code with at least two members has no zero length *)
Lemma kraft_ge_length ml lens : N.of_nat (length lens) <= kraft ml lens.
Proof.
  induction lens as [|[s l] lens IH]; cbn [kraft fold_right length snd]; [lia|].
  fold (kraft ml lens). pose proof (N.pow_nonzero 2 (ml - l)). lia.
Qed.

Lemma kraft_zero_member ml lens s :
  In (s, 0) lens -> 2 ^ ml + N.of_nat (length lens) <= kraft ml lens + 1.
Proof.
  induction lens as [|[s0 l0] lens IH]; intros Hin; [contradiction|].
  cbn [kraft fold_right length snd]. fold (kraft ml lens).
  destruct Hin as [E|Hin].
  - inversion E; subst. rewrite N.sub_0_r. pose proof (kraft_ge_length ml lens). lia.
  - specialize (IH Hin). pose proof (N.pow_nonzero 2 (ml - l0)). lia.
Qed.

Lemma complete_nozero lens : (2 <= length lens)%nat -> complete lens = true ->
  forall s l, In (s, l) lens -> l <> 0.
Proof.
  intros Hlen Hc s l Hin El. subst l. unfold complete in Hc. apply N.eqb_eq in Hc.
  pose proof (kraft_zero_member (max_len lens) lens s Hin). lia.
Qed.

Lemma build_tree_nonleaf lens fake t : build_tree lens fake = Some t -> nonleaf t.
Proof.
  unfold build_tree. destruct lens as [|sl [|sl2 lens]].
  - intros E; inversion E; exact I.
  - destruct (complete [sl; (fake, 1)]) eqn:Ec; [|discriminate].
    intros E; inversion E; subst. apply tree_of_nonleaf.
    apply complete_nozero; [cbn; lia | exact Ec].
  - destruct (complete (sl :: sl2 :: lens)) eqn:Ec; [|discriminate].
    intros E; inversion E; subst. apply tree_of_nonleaf.
    apply complete_nozero; [cbn [length]; lia | exact Ec].
Qed.

Lemma fixedLit_nonleaf : nonleaf fixedLitTree.
Proof. vm_compute. exact I. Qed.
Lemma fixedDist_nonleaf : nonleaf fixedDistTree.
Proof. vm_compute. exact I. Qed.

(* ---- decoding a symbol consumes input ---------------------------------------------- *)
Lemma eats_sym_or_corrupt t : nonleaf t -> eats (fun _ => True) (sym_or_corrupt t).
Proof.
  intros Ht. unfold sym_or_corrupt. destruct t as [|s|l r]; [|contradiction|].
  - cbn [sym_tree bind]. apply eats_throw.
  - cbn [sym_tree]. apply eats_bind_first. apply eats_bit.
Qed.

Section Fuel.
Variable n : nat.

Lemma nf_sym_tree t : nofuel n (sym_tree t).
Proof.
  induction t as [| s | l IHl r IHr]; cbn [sym_tree]; [apply nofuel_ret | apply nofuel_ret |].
  apply nofuel_bit. intros []; assumption.
Qed.

Lemma nf_sym_or_corrupt t : nofuel n (sym_or_corrupt t).
Proof.
  unfold sym_or_corrupt. apply nofuel_bind; [apply nf_sym_tree|].
  intros [s|]; [apply nofuel_ret | apply nofuel_throw; discriminate].
Qed.

Lemma nf_rbits k : nofuel n (rbits k).
Proof. apply nofuel_bits_lsbf. Qed.

Lemma nf_opt_tree o : nofuel n (opt_tree o).
Proof. destruct o; [apply nofuel_ret | apply nofuel_throw; discriminate]. Qed.

Lemma nf_read_clens order : nofuel n (read_clens order).
Proof.
  induction order as [|s r IH]; cbn [read_clens]; [apply nofuel_ret|].
  apply nofuel_bind; [apply nf_rbits|]. intros l.
  apply nofuel_bind; [exact IH|]. intros rest. apply nofuel_ret.
Qed.

Lemma nf_clen_body tree maxSyms s : nofuel n (clen_body tree maxSyms s).
Proof.
  unfold clen_body. destruct (maxSyms <=? cl_sym s); [apply nofuel_ret|].
  apply nofuel_bind; [apply nf_sym_or_corrupt|]. intros clen.
  destruct (clen <? 16); [apply nofuel_ret|].
  apply nofuel_bind.
  - destruct (clen =? 16).
    + apply nofuel_bind; [apply nofuel_assert; discriminate|]. intros _.
      apply nofuel_bind; [apply nf_rbits|]. intros; apply nofuel_ret.
    + destruct (clen =? 17); [apply nofuel_bind; [apply nf_rbits|]; intros; apply nofuel_ret|].
      destruct (clen =? 18); [apply nofuel_bind; [apply nf_rbits|]; intros; apply nofuel_ret|].
      apply nofuel_throw; discriminate.
  - intros [cl rep]. apply nofuel_bind; [apply nofuel_assert; discriminate|]. intros _. apply nofuel_ret.
Qed.

(* every continuing iteration of the code-length loop advances the symbol counter *)
Lemma clen_body_advances tree maxSyms st :
  post (fun r => match r with
                 | inl st' => cl_sym st < cl_sym st' /\ cl_sym st < maxSyms
                 | inr _ => True end)
       (clen_body tree maxSyms st).
Proof.
  unfold clen_body. destruct (maxSyms <=? cl_sym st) eqn:E; [apply post_ret; exact I|].
  apply N.leb_gt in E.
  apply post_bind_any. intros clen.
  destruct (clen <? 16); [apply post_ret; cbn [cl_sym]; lia|].
  apply (post_bind (fun r : N * N => 3 <= snd r)).
  - destruct (clen =? 16).
    + apply post_bind_any. intros _. apply post_bind_any. intros x. apply post_ret. cbn [snd]. lia.
    + destruct (clen =? 17); [apply post_bind_any; intros x; apply post_ret; cbn [snd]; lia|].
      destruct (clen =? 18); [apply post_bind_any; intros x; apply post_ret; cbn [snd]; lia|].
      apply post_throw.
  - intros [cl rep] Hr. cbn [snd] in Hr. apply post_bind_any. intros _.
    apply post_ret. cbn [cl_sym]. lia.
Qed.

Lemma nf_clen_loop tree maxSyms :
  maxSyms <= 316 -> nofuel n (loop 10 (clen_body tree maxSyms) (mkClst 0 0 [])).
Proof.
  intros Hm.
  apply (nofuel_loop_measure n (fun st => N.to_nat (maxSyms - cl_sym st))).
  - intros st. apply nf_clen_body.
  - intros st s st' s' E.
    pose proof (post_elim _ _ _ _ _ (clen_body_advances tree maxSyms st) E) as H. cbv beta iota in H. lia.
  - cbn [cl_sym]. change (2 ^ 10)%nat with 1024%nat. lia.
Qed.

Lemma nf_read_prefix_codes : nofuel n read_prefix_codes.
Proof.
  unfold read_prefix_codes.
  eapply nofuel_bind_post; [apply nf_rbits | apply (post_bits_lsbf (N.to_nat 5)) |]. intros numLit HL.
  eapply nofuel_bind_post; [apply nf_rbits | apply (post_bits_lsbf (N.to_nat 5)) |]. intros numDist HD.
  apply nofuel_bind; [apply nf_rbits|]. intros numCLen. cbv zeta.
  apply nofuel_assert_bind; [discriminate|]. intros Ha.
  apply andb_true_iff in Ha. destruct Ha as [Ha1 Ha2]. apply N.leb_le in Ha1, Ha2.
  apply nofuel_bind; [apply nf_read_clens|]. intros cl.
  apply nofuel_bind; [apply nf_opt_tree|]. intros ctree.
  apply nofuel_bind; [apply nf_clen_loop; unfold maxNumLitSyms, maxNumDistSyms in *; lia|]. intros lens.
  apply nofuel_bind; [apply nf_opt_tree|]. intros lt.
  apply nofuel_bind; [apply nf_opt_tree|]. intros dt. apply nofuel_ret.
Qed.

Lemma post_opt_tree lens fake : post nonleaf (opt_tree (build_tree lens fake)).
Proof.
  destruct (build_tree lens fake) as [t|] eqn:E; cbn [opt_tree]; [|apply post_throw].
  apply post_ret. eapply build_tree_nonleaf. exact E.
Qed.

Lemma post_read_prefix_codes : post (fun ts => nonleaf (fst ts)) read_prefix_codes.
Proof.
  unfold read_prefix_codes.
  do 3 (apply post_bind_any; intros ?). cbv zeta.
  apply post_bind_any; intros _.
  do 3 (apply post_bind_any; intros ?).
  eapply post_bind; [apply post_opt_tree|]. intros lt Hlt.
  apply post_bind_any. intros dt. apply post_ret. exact Hlt.
Qed.

Lemma nf_block_body lt dt u : nofuel n (block_body lt dt u).
Proof.
  unfold block_body.
  apply nofuel_bind; [apply nf_sym_or_corrupt|]. intros litSym.
  destruct (litSym <? 256); [apply nofuel_put; apply nofuel_ret|].
  destruct (litSym =? 256); [apply nofuel_ret|].
  destruct (litSym <? maxNumLitSyms); [|apply nofuel_throw; discriminate].
  destruct (nth_range lenRanges (litSym - 257)) as [base nb].
  apply nofuel_bind; [apply nf_rbits|]. intros extra.
  apply nofuel_bind; [apply nf_sym_or_corrupt|]. intros distSym.
  apply nofuel_bind; [apply nofuel_assert; discriminate|]. intros _.
  destruct (nth_range distRanges distSym) as [dbase dnb].
  apply nofuel_bind; [apply nf_rbits|]. intros dextra.
  apply nofuel_hist. intros h.
  apply nofuel_bind; [apply nofuel_assert; discriminate|]. intros _.
  apply nofuel_copy. apply nofuel_ret.
Qed.

Lemma eats_block_body lt dt u : nonleaf lt ->
  eats (fun r => exists st', r = inl st') (block_body lt dt u).
Proof.
  intros Hl. unfold block_body. apply eats_bind_first. apply eats_sym_or_corrupt. exact Hl.
Qed.

Lemma nf_raw_bytes k : nofuel n (raw_bytes k).
Proof.
  induction k as [|k IH]; cbn [raw_bytes]; [apply nofuel_ret|].
  apply nofuel_bind; [apply nofuel_bits_lsbf|]. intros b. apply nofuel_put. exact IH.
Qed.

Lemma nf_one_block depth : (n <= 2 ^ depth)%nat -> nofuel n (one_block depth).
Proof.
  intros Hd. unfold one_block.
  apply nofuel_bind; [apply nf_rbits|]. intros last.
  apply nofuel_bind; [apply nf_rbits|]. intros typ.
  apply nofuel_bind; [|intros; apply nofuel_ret].
  destruct (typ =? 0).
  { apply nofuel_align. intros _.
    apply nofuel_bind; [apply nf_rbits|]. intros len.
    apply nofuel_bind; [apply nf_rbits|]. intros nlen.
    apply nofuel_bind; [apply nofuel_assert; discriminate|]. intros _.
    destruct (len =? 0); [apply nofuel_yield; apply nofuel_ret | apply nf_raw_bytes]. }
  destruct (typ =? 1).
  { apply nofuel_loop; [intros; apply nf_block_body | | exact Hd].
    intros st. apply eats_block_body. exact fixedLit_nonleaf. }
  destruct (typ =? 2); [|apply nofuel_throw; discriminate].
  eapply nofuel_bind_post; [apply nf_read_prefix_codes | apply post_read_prefix_codes |].
  intros ts Hts.
  apply nofuel_loop; [intros; apply nf_block_body | | exact Hd].
  intros st. apply eats_block_body. exact Hts.
Qed.

Lemma eats_one_block depth : eats (fun _ => True) (one_block depth).
Proof.
  unfold one_block. apply eats_bind_first. apply (eats_bits_lsbf (N.to_nat 1)). cbn. lia.
Qed.

Lemma nf_stream_body depth u : (n <= 2 ^ depth)%nat -> nofuel n (stream_body depth u).
Proof.
  intros Hd. unfold stream_body. apply nofuel_bind; [apply nf_one_block; exact Hd|].
  intros last. destruct last; [apply nofuel_align; intros; apply nofuel_ret | apply nofuel_ret].
Qed.

Theorem inflate_prog_nofuel depth : (n <= 2 ^ depth)%nat -> nofuel n (inflate_prog depth).
Proof.
  intros Hd. unfold inflate_prog.
  apply nofuel_loop; [intros; apply nf_stream_body; exact Hd | | exact Hd].
  intros st. unfold stream_body. apply eats_bind_first. apply eats_one_block.
Qed.
End Fuel.

(* ---- the budget chosen by [inflate] is sufficient ------------------------------------ *)
Lemma bytes_to_bits_length l : length (bytes_to_bits l) = (8 * length l)%nat.
Proof.
  unfold bytes_to_bits. induction l as [|b l IH]; [reflexivity|].
  cbn [flat_map length]. rewrite app_length, IH, bits_lsb_len. lia.
Qed.

Lemma depth_for_enough k : (8 * k < 2 ^ depth_for k)%nat.
Proof.
  unfold depth_for. set (x := 8 * N.of_nat k + 64).
  assert (Hx : 0 < x) by (unfold x; lia).
  pose proof (N.log2_spec x Hx) as [_ H2].
  rewrite <- N2Nat.inj_succ.
  replace (2 ^ N.to_nat (N.succ (N.log2 x)))%nat with (N.to_nat (2 ^ N.succ (N.log2 x))).
  - set (p := 2 ^ N.succ (N.log2 x)) in *. unfold x in H2. lia.
  - rewrite N2Nat.inj_pow. reflexivity.
Qed.

(* the decoder model ends on EVERY input in success, UnexpectedEOF or Corrupted *)
Theorem inflate_total input :
  match ir_err (inflate input) with
  | None => True
  | Some e => e = EUEOF \/ e = ECorrupted
  end.
Proof.
  unfold inflate. cbn [ir_err].
  set (d := depth_for (length input)). set (s := ast_init (bytes_to_bits input)).
  pose proof (inflate_never_panics d input) as H1. fold s in H1.
  assert (Hs : (ilen s < 8 * length input + 1)%nat).
  { unfold ilen, s. cbn [ast_init a_in]. rewrite bytes_to_bits_length. lia. }
  assert (Hd : (8 * length input + 1 <= 2 ^ d)%nat) by (pose proof (depth_for_enough (length input)); unfold d; lia).
  pose proof (nofuel_elim _ _ s (inflate_prog_nofuel _ d Hd) Hs) as H2.
  destruct (run (inflate_prog d) s) as [a s'|e s']; cbn [res_err] in *; [exact I|].
  destruct H1 as [H1|[H1|H1]]; [left; exact H1 | right; exact H1 | contradiction].
Qed.
