(* LIFECYCLE of flate.Reader at the implementation level (flate/reader.go): Close, the sticky
   error, Reset, as histories of calls over the model of Flate/Impl.v.

     Reader.Close      -> [fl_close]
     one call          -> [fl_op]      (Read(buf) / Close() / Reset(r))
     a history         -> [fl_ops]     one observation per call, never cut short
     NewReader + calls -> [fl_life]

   An observation is what the correspondence harness (harness/cmd/vh/wfllife.go, WFLLIFE)
   records after every call: the kind of call, the bytes delivered (Read only), the class of
   the error returned, InputOffset, OutputOffset and the position of the CURRENT source.

   As in Flate/Impl.v a crash of the real code (Go run-time panic; never-ending loop) is the
   latched pseudo error [EPanic] / [EFuel]; the real call does not return, the harness stops
   the history there and the driver cuts the model's observation list at the same place.
   [fl_ops] itself never stops: that keeps the statements about histories simple. *)
From V Require Import Base.Prelude Prefix.ReaderImpl Prefix.DecTable Window.Dict.
From V Require Import Flate.Impl.

Local Open Scope N_scope.

(* func (zr *Reader) Close() error {
     zr.toRead = nil // Make sure future reads fail
     if zr.err == io.EOF || zr.err == errClosed { zr.err = errClosed; return nil }
     return zr.err // Return the persistent error
   }
   Nothing else is touched: not the source, not the offsets, not the window. With zr.err == nil
   (Close in the middle of a stream) NOTHING is latched: the pending output is dropped and the
   next Read goes on decoding. *)
Definition fl_close (st : flst) : option err * flst :=
  let st1 := set_toRead st [] in
  match f_err st1 with
  | Some EEOF => (None, set_err st1 (Some EClosed))
  | Some EClosed => (None, set_err st1 (Some EClosed))
  | e => (e, st1)
  end.

(* NewReader over a dictDecoder whose hist is the (non-nil) slice [arr]: what a Reader that
   has been used before looks like to Reset, as far as anything observable goes (Flate/
   ImplLifeThms.v fl_reset_as_new). [fl_new] is the instance arr = make([]byte, 4096). *)
Definition fl_new_with (arr : list byte) (data : list byte) (buffered : bool) (fills reads : list nat) : dres flst :=
  match dd_init maxHistSize (Some arr) with
  | Ok dict =>
    Ok (mkFl 0%Z 0%Z (init data buffered false fills reads) fresh_slot [] 0%Z 0%Z 0%Z false None
             StHeader false dict TNil fresh_slot fresh_slot)
  | Panic => Panic | Hang => Hang | Fuel => Fuel
  end.

(* ---- calls and what is observed of them ---------------------------------------------------- *)
Inductive flop :=
| FRead (n : nat)                                                   (* Read(make([]byte, n)) *)
| FClose                                                            (* Close() *)
| FReset (data : list byte) (buffered : bool) (fills reads : list nat).  (* Reset(scripted source) *)

Inductive lkind := LkRead | LkClose | LkReset.

Record lobs := mkLobs {
  lo_kind : lkind;
  lo_bytes : list byte;       (* Read: the bytes stored into the buffer; otherwise [] *)
  lo_err : option err;        (* the error returned (Reset: always nil) *)
  lo_inOff : Z;               (* InputOffset after the call *)
  lo_outOff : Z;              (* OutputOffset after the call *)
  lo_srcPos : nat             (* bytes the current source has handed out *)
}.

Definition src_pos (st : flst) : nat := s_pos (p_src (f_rd st)).

Definition lobs_of (k : lkind) (bs : list byte) (e : option err) (st : flst) : lobs :=
  mkLobs k bs e (f_inOff st) (f_outOff st) (src_pos st).

Definition fl_op (st : flst) (o : flop) : lobs * flst :=
  match o with
  | FRead n => let '((bs, e), st') := fl_read st n in (lobs_of LkRead bs e st', st')
  | FClose => let '(e, st') := fl_close st in (lobs_of LkClose [] e st', st')
  | FReset data buffered fills reads =>
    match fl_reset st data buffered fills reads with
    | Ok st' => (lobs_of LkReset [] None st', st')
    (* unreachable (ImplLifeThms.v fl_reset_total): dd.hist[:dd.size] with size < cap *)
    | Panic => (lobs_of LkReset [] (Some EPanic) st, st)
    | Hang => (lobs_of LkReset [] (Some EFuel) st, st)
    | Fuel => (lobs_of LkReset [] (Some EFuel) st, st)
    end
  end.

Fixpoint fl_ops (st : flst) (ops : list flop) : list lobs * flst :=
  match ops with
  | [] => ([], st)
  | o :: r =>
    let '(ob, st') := fl_op st o in
    let '(l, fin) := fl_ops st' r in (ob :: l, fin)
  end.

(* NewReader(scripted source), then the calls *)
Definition fl_life (data : list byte) (buffered : bool) (fills reads : list nat) (ops : list flop)
  : dres (list lobs) :=
  match fl_new data buffered fills reads with
  | Ok st => Ok (fst (fl_ops st ops))
  | Panic => Panic | Hang => Hang | Fuel => Fuel
  end.
