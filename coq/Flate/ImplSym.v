(* Per-symbol simulation: the decoder tables of the implementation (Prefix/DecTable.v, with the
   MinBits installed by flate) and the tree of the specification (Flate/Spec.v tree_of) decode
   the same symbols from every reader state consistent with a bit position. Assembled from
   Flate/ImplBits.v (implementation side) and Flate/SpecChar.v (specification side). *)
From V Require Import Base.Prelude Base.Prog Base.ProgThms Bzip2.Common Prefix.Code
  Prefix.ReaderImpl Prefix.ReaderSpec Prefix.ReaderThms
  Prefix.DecTable Prefix.DecTableSpec Prefix.DecTableThms Prefix.DecReadThms Prefix.DecReadBufThms
  Prefix.DecCanonThms Flate.Canon.
From V Require Flate.Spec.
From V Require Import Flate.Impl Flate.ImplRel Flate.ImplBits Flate.SpecChar.
From Coq Require Import ZifyBool ZifyN ZifyNat.

Local Open Scope N_scope.

(* the length the assignment [lens] gives to symbol s (0 when s has no code) *)
Definition len_of (lens : list (N * N)) (s : N) : N :=
  match find (fun sl => fst sl =? s) lens with
  | Some sl => snd sl
  | None => 0
  end.

Lemma len_of_in lens s l : NoDup (map fst lens) -> In (s, l) lens -> len_of lens s = l.
Proof.
  unfold len_of. induction lens as [|[s0 l0] r IH]; intros Hnd Hin; [contradiction|].
  cbn [find fst]. inversion Hnd as [|x xs Hx Hr]; subst.
  destruct Hin as [E|Hin].
  - inversion E; subst. rewrite N.eqb_refl. reflexivity.
  - destruct (s0 =? s) eqn:Es.
    + apply N.eqb_eq in Es. subst s0. exfalso. apply Hx.
      change s with (fst (s, l)). apply in_map. exact Hin.
    + apply IH; assumption.
Qed.

(* [SymOK data d t m dv lenf]: see ImplRel.sym_sim_for; in addition, without the MinBits
   deviation the first request never exceeds the decoded length. *)
Definition sym_ok_for (f : dec -> prd -> res N * prd)
    (data : list byte) (d : dec) (t : Flate.Spec.htree) (m : N) (dv : bool) (lenf : N -> N) : Prop :=
  forall k R p out, BIs data k R p ->
    let r := run (Flate.Spec.sym_or_corrupt t) (sigma data R out) in
    match f d p with
    | (ROk s, p') =>
        let l := lenf s in
        1 <= l /\ (R + N.to_nat (N.max m l) <= nbits data)%nat /\ (dv = false -> m <= l) /\
        r = Done s (sigma data (R + N.to_nat l) out) /\
        BIs data (N.max k m - l) (R + N.to_nat l) p' /\ p_buffered p' = p_buffered p
    | (RThrow e, p') =>
        (e = EUEOF /\ fails EUEOF out r) \/ (e = EInvalid /\ fails ECorrupted out r) \/
        (dv = true /\ e = EUEOF /\ (nbits data < R + N.to_nat m)%nat)
    end.

Definition SymOK (data : list byte) (d : dec) (t : Flate.Spec.htree) (m : N) (dv : bool) (lenf : N -> N) : Prop :=
  sym_ok_for sym_slow data d t m dv lenf /\ sym_ok_for sym_fast data d t m dv lenf.

(* what a successful tree walk of the specification consumes *)
Definition TreeLen (data : list byte) (t : Flate.Spec.htree) (lenf : N -> N) : Prop :=
  forall R out s s', (R <= nbits data)%nat ->
    run (Flate.Spec.sym_or_corrupt t) (sigma data R out) = Done s s' ->
    s' = sigma data (R + N.to_nat (lenf s)) out /\ (R + N.to_nat (lenf s) <= nbits data)%nat /\
    1 <= lenf s.

Section Sym.
Variable data : list byte.
Hypothesis Hd : forall b, In b data -> b < 256.

Lemma fails_not_done {A} e out (r : result A) a s : fails e out r -> r <> Done a s.
Proof. intros (s' & E & _) C. rewrite C in E. discriminate. Qed.

(* ---- the empty tree ------------------------------------------------------------------------- *)
Lemma symok_empty lenf : SymOK data empty_dec Flate.Spec.HEmpty 0 false lenf.
Proof.
  split; intros k R p out HB; cbv zeta.
  - rewrite (sym_empty sym_slow p (or_introl eq_refl)).
    right; left. split; [reflexivity|]. eexists. split; [reflexivity|]. reflexivity.
  - rewrite (sym_empty sym_fast p (or_intror eq_refl)).
    right; left. split; [reflexivity|]. eexists. split; [reflexivity|]. reflexivity.
Qed.

Lemma treelen_empty lenf : TreeLen data Flate.Spec.HEmpty lenf.
Proof. intros R out s s' _ H. cbn in H. discriminate. Qed.

(* ---- a complete code ---------------------------------------------------------------------------- *)
Section Code.
Variable lens : list (N * N).
Hypothesis H2 : (2 <= length lens)%nat.
Hypothesis Hnd : NoDup (map fst lens).
Hypothesis Hp : lens_pos lens.
Hypothesis Hc : Flate.Spec.complete lens = true.
Hypothesis HM : Flate.Spec.max_len lens <= 15.
Hypothesis Hs27 : forall s l, In (s, l) lens -> s < 2 ^ 27.
Let t := Flate.Spec.tree_of lens.
Let codes := canon_codes lens.
Hypothesis HV : dec_valid 27 codes.
Hypothesis HZ : zero_min codes.
Variable d0 : dec.
Hypothesis HT : tables_ok codes d0.
Variable m : N.
Hypothesis Hm1 : min_bits codes <= m.
Hypothesis Hm2 : m <= max_bits codes.
Variable dv : bool.
Hypothesis Hdv : dv = false -> m = min_bits codes.

Let HM31 : Flate.Spec.max_len lens <= 31.
Proof. lia. Qed.

Lemma code_sym_small c : In c codes -> c_sym c mod 2 ^ 27 = c_sym c.
Proof.
  intros Hc'. apply N.mod_small. apply (Hs27 (c_sym c) (c_len c)).
  apply (codes_in_lens data Hd lens H2 Hnd Hp Hc HM31); assumption.
Qed.

Lemma code_len_of c : In c codes -> len_of lens (c_sym c) = c_len c.
Proof. intros Hc'. apply len_of_in; [exact Hnd|]. apply (codes_in_lens data Hd lens H2 Hnd Hp Hc HM31); assumption. Qed.

Lemma code_len_pos c : In c codes -> 1 <= c_len c.
Proof. intros Hc'. apply (Hp (c_sym c)). apply (codes_in_lens data Hd lens H2 Hnd Hp Hc HM31); assumption. Qed.

Lemma min_le_len c : In c codes -> min_bits codes <= c_len c.
Proof.
  intros Hc'. rewrite <- (to_min _ _ HT). apply (min_bits_request codes d0 c HT Hc').
Qed.

Lemma symok_for_code (f : dec -> prd -> res N * prd) :
  (forall k R p c, BIs data k R p -> In c codes -> matches c (window false data R) ->
     (R + N.to_nat (N.max m (c_len c)) <= nbits data)%nat ->
     exists p', f (set_min_bits d0 m) p = (ROk (c_sym c mod 2 ^ 27), p') /\
       BIs data (N.max k m - c_len c) (R + N.to_nat (c_len c)) p' /\ p_buffered p' = p_buffered p) ->
  (forall k R p, BIs data k R p -> (nbits data < R + N.to_nat m)%nat ->
     exists p', f (set_min_bits d0 m) p = (RThrow EUEOF, p')) ->
  (forall k R p, BIs data k R p ->
     (forall c, In c codes -> matches c (window false data R) -> (nbits data < R + N.to_nat (c_len c))%nat) ->
     exists p', f (set_min_bits d0 m) p = (RThrow EUEOF, p')) ->
  sym_ok_for f data (set_min_bits d0 m) t m dv (len_of lens).
Proof.
  intros Fok Fshort Feof k R p out HB. cbv zeta.
  pose proof (BIs_range data Hd k R p HB) as HR.
  assert (HR' : (R <= nbits data)%nat) by lia.
  destruct (codes_complete data Hd lens H2 Hnd Hp Hc HM31 R) as (c & Hin & Hmt).
  fold codes in Hin.
  destruct (Nat.le_gt_cases (R + N.to_nat (N.max m (c_len c))) (nbits data)) as [Hfit|Hno].
  - destruct (Fok k R p c HB Hin Hmt Hfit) as (p' & E & HB' & Hbf). rewrite E.
    rewrite (code_sym_small c Hin), (code_len_of c Hin).
    split; [apply code_len_pos; exact Hin|]. split; [exact Hfit|].
    split; [intros Hx; rewrite (Hdv Hx); apply min_le_len; exact Hin|].
    split; [|split; assumption].
    apply (sym_tree_match data Hd lens H2 Hnd Hp Hc HM31 R out c HR' Hin Hmt). lia.
  - assert (Huniq : forall c', In c' codes -> matches c' (window false data R) -> c' = c).
    { intros c' Hin' Hm'. apply (dv_unique _ _ HV (window false data R)); assumption. }
    destruct (Nat.le_gt_cases (R + N.to_nat (c_len c)) (nbits data)) as [Hcfit|Hcno].
    + (* the code word is there, but fewer than m bits remain *)
      assert (Hshort : (nbits data < R + N.to_nat m)%nat) by lia.
      destruct (Fshort k R p HB Hshort) as (p' & E). rewrite E.
      destruct dv eqn:Edv.
      * right; right. split; [reflexivity|]. split; [reflexivity | exact Hshort].
      * exfalso. pose proof (min_le_len c Hin). rewrite (Hdv eq_refl) in Hshort. lia.
    + assert (Hall : forall c', In c' codes -> matches c' (window false data R) ->
                       (nbits data < R + N.to_nat (c_len c'))%nat).
      { intros c' Hin' Hm'. rewrite (Huniq c' Hin' Hm'). exact Hcno. }
      destruct (Feof k R p HB Hall) as (p' & E). rewrite E.
      left. split; [reflexivity|].
      apply (sym_tree_eof data Hd lens H2 Hnd Hp Hc HM31 R out HR' Hall).
Qed.

Theorem symok_code : SymOK data (set_min_bits d0 m) t m dv (len_of lens).
Proof.
  assert (HL : 27 <= 31) by lia.
  split; apply symok_for_code.
  - intros k R p c. apply (sym_slow_ok data Hd 27 codes HL HV HZ d0 HT m Hm1 Hm2).
  - intros k R p. apply (sym_slow_short data Hd 27 codes HL HV d0 HT m Hm1 Hm2).
  - intros k R p. apply (sym_slow_eof data Hd 27 codes HL HV d0 HT m Hm1 Hm2).
  - intros k R p c. apply (sym_fast_ok data Hd 27 codes HL HV HZ d0 HT m Hm1 Hm2).
  - intros k R p. apply (sym_fast_short data Hd 27 codes HL HV d0 HT m Hm1 Hm2).
  - intros k R p. apply (sym_fast_eof data Hd 27 codes HL HV d0 HT m Hm1 Hm2).
Qed.

Theorem treelen_code : TreeLen data t (len_of lens).
Proof.
  intros R out s s' HR Hrun.
  destruct (codes_complete data Hd lens H2 Hnd Hp Hc HM31 R) as (c & Hin & Hmt). fold codes in Hin.
  destruct (Nat.le_gt_cases (R + N.to_nat (c_len c)) (nbits data)) as [Hfit|Hno].
  - pose proof (sym_tree_match data Hd lens H2 Hnd Hp Hc HM31 R out c HR Hin Hmt Hfit) as E.
    fold t in E. rewrite E in Hrun. inversion Hrun; subst s s'.
    rewrite (code_len_of c Hin). split; [reflexivity|]. split; [exact Hfit | apply code_len_pos; exact Hin].
  - exfalso.
    assert (Hall : forall c', In c' codes -> matches c' (window false data R) ->
                     (nbits data < R + N.to_nat (c_len c'))%nat).
    { intros c' Hin' Hm'.
      rewrite (dv_unique _ _ HV (window false data R) c' c Hin' Hin Hm' Hmt). exact Hno. }
    pose proof (sym_tree_eof data Hd lens H2 Hnd Hp Hc HM31 R out HR Hall) as F. fold t in F.
    exact (fails_not_done _ _ _ _ _ F Hrun).
Qed.

End Code.
End Sym.
