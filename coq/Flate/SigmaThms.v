(* Every machine state the specification reaches from [sigma data R out] is again of that
   shape (a later bit position of the same data, an extension of the output), for EVERY
   decoder program; and inversion lemmas for the budget-free loop relation [loops]. *)
From V Require Import Base.Prelude Base.Prog Base.ProgThms Base.DepthThms.
From V Require Import Flate.Impl Flate.ImplRel.
From Coq Require Import ZifyBool ZifyN ZifyNat.

Local Open Scope N_scope.

Lemma skipn_cons_S {A} (R : nat) (l : list A) b r : skipn R l = b :: r -> skipn (S R) l = r.
Proof.
  revert l; induction R as [|R IH]; intros l H; cbn [skipn] in *.
  - subst l. reflexivity.
  - destruct l as [|x l]; [discriminate|]. apply IH. exact H.
Qed.

Lemma sbits_len data : length (sbits data) = nbits data.
Proof.
  unfold sbits, nbits, bytes_to_bits. induction data as [|b l IH]; [reflexivity|].
  cbn [flat_map length]. rewrite app_length, IH. cbn [bits_lsb length]. lia.
Qed.

Lemma prefix_of_app_r {A} (a b c : list A) : prefix_of a b -> prefix_of a (b ++ c).
Proof. intros [t ->]. exists (t ++ c). rewrite app_assoc. reflexivity. Qed.

Section Sigma.
Variable data : list byte.

Theorem run_sigma {A} (p : prog A) : forall R out, (R <= nbits data)%nat ->
  exists R' out', res_state (run p (sigma data R out)) = sigma data R' out' /\
    (R <= R')%nat /\ (R' <= nbits data)%nat /\ prefix_of out out'.
Proof.
  induction p as [a|e|k IH|k IH|k IH|k IH|b k IH|d l k IH|k IH|d k IH|k IH];
    intros R out HR; cbn [run].
  - exists R, out. split; [reflexivity|]. split; [lia|]. split; [exact HR | apply prefix_of_refl].
  - exists R, out. split; [reflexivity|]. split; [lia|]. split; [exact HR | apply prefix_of_refl].
  - cbn [sigma a_in a_pos a_out a_len].
    destruct (skipn R (sbits data)) as [|b r] eqn:E.
    + exists R, out. cbn [res_state]. unfold sigma. rewrite E.
      split; [reflexivity|]. split; [lia|]. split; [exact HR | apply prefix_of_refl].
    + assert (HS : (S R <= nbits data)%nat).
      { assert (HL : length (skipn R (sbits data)) = length (b :: r)) by (rewrite E; reflexivity).
        rewrite skipn_length, sbits_len in HL. cbn [length] in HL. lia. }
      destruct (IH b (S R) out HS) as (R' & out' & E' & H1 & H2 & H3).
      exists R', out'. split; [|split; [lia|split; assumption]].
      rewrite <- E'. f_equal. f_equal. unfold sigma.
      rewrite (skipn_cons_S R _ b r E). f_equal. lia.
  - cbn [sigma a_in a_pos a_out a_len].
    set (n := N.to_nat (pad_count (N.of_nat R))).
    destruct (Nat.leb n (length (skipn R (sbits data)))) eqn:E.
    + apply Nat.leb_le in E. rewrite skipn_length, sbits_len in E.
      assert (HS : (R + n <= nbits data)%nat) by lia.
      destruct (IH (bits_val (firstn n (skipn R (sbits data)))) (R + n)%nat out HS)
        as (R' & out' & E' & H1 & H2 & H3).
      exists R', out'. split; [|split; [lia|split; assumption]].
      rewrite <- E'. f_equal. f_equal. unfold sigma.
      rewrite skipn_skipn'. f_equal. lia.
    + exists R, out. cbn [res_state]. split; [reflexivity|]. split; [lia|].
      split; [exact HR | apply prefix_of_refl].
  - apply IH. exact HR.
  - apply IH. exact HR.
  - destruct (IH R (out ++ [b]) HR) as (R' & out' & E' & H1 & H2 & H3).
    exists R', out'. split.
    + rewrite <- E'. f_equal. f_equal. unfold sigma. cbn [a_in a_pos a_out a_len].
      rewrite rev_app_distr. cbn [rev app]. f_equal. rewrite app_length. cbn [length]. lia.
    + split; [exact H1|]. split; [exact H2|].
      destruct H3 as [t Ht]. exists ([b] ++ t). rewrite Ht, <- app_assoc. reflexivity.
  - cbn [sigma a_in a_pos a_out a_len].
    destruct ((0 <? d) && (d <=? N.of_nat (length out))) eqn:C.
    + destruct (copy_chunks_app (S (N.to_nat l)) (N.to_nat l) (N.to_nat d) (rev out)) as [o Ho].
      assert (Hlen : length (copy_chunks (S (N.to_nat l)) (N.to_nat l) (N.to_nat d) (rev out))
                     = (N.to_nat l + length (rev out))%nat).
      { apply copy_chunks_length; rewrite ?rev_length; lia. }
      rewrite Ho, app_length in Hlen.
      destruct (IH R (out ++ rev o) HR) as (R' & out' & E' & H1 & H2 & H3).
      exists R', out'. split.
      * rewrite <- E'. f_equal. f_equal. unfold sigma. rewrite Ho.
        rewrite rev_app_distr, rev_involutive. f_equal.
        rewrite app_length, rev_length. lia.
      * split; [exact H1|]. split; [exact H2|].
        destruct H3 as [t Ht]. exists (rev o ++ t). rewrite Ht, <- app_assoc. reflexivity.
    + exists R, out. cbn [res_state]. split; [reflexivity|]. split; [lia|].
      split; [exact HR | apply prefix_of_refl].
  - apply IH. exact HR.
  - apply IH. exact HR.
  - apply IH. exact HR.
Qed.

Corollary run_sigma_done {A} (p : prog A) R out a s' : (R <= nbits data)%nat ->
  run p (sigma data R out) = Done a s' ->
  exists R' out', s' = sigma data R' out' /\ (R <= R')%nat /\ (R' <= nbits data)%nat /\ prefix_of out out'.
Proof.
  intros HR E. destruct (run_sigma p R out HR) as (R' & out' & E' & H). rewrite E in E'.
  exists R', out'. split; [exact E' | exact H].
Qed.

Corollary run_sigma_fail {A} (p : prog A) R out e s' : (R <= nbits data)%nat ->
  run p (sigma data R out) = Fail e s' -> fails_after out (run p (sigma data R out)).
Proof.
  intros HR E. destruct (run_sigma p R out HR) as (R' & out' & E' & _ & _ & H3). rewrite E in *.
  exists e, s'. split; [reflexivity|]. cbn [res_state] in E'. rewrite E'. unfold sigma. cbn [a_out].
  rewrite rev_involutive. exact H3.
Qed.

End Sigma.

(* ---- inversion of [loops] --------------------------------------------------------------- *)
Lemma loops_inv_step {St R} (body : St -> prog (St + R)) st s r st1 s1 :
  loops body st s r -> run (body st) s = Done (inl st1) s1 -> loops body st1 s1 r.
Proof.
  intros H E. inversion H as [st0 s0 e s' E0|st0 s0 x s' E0|st0 s0 st2 s2 r0 E0 H0]; subst;
    rewrite E in E0; inversion E0; subst. exact H0.
Qed.

Lemma loops_inv_done {St R} (body : St -> prog (St + R)) st s r x s' :
  loops body st s r -> run (body st) s = Done (inr x) s' -> r = Done x s'.
Proof.
  intros H E. inversion H as [st0 s0 e s0' E0|st0 s0 x0 s0' E0|st0 s0 st2 s2 r0 E0 H0]; subst;
    rewrite E in E0; inversion E0; subst. reflexivity.
Qed.

Lemma loops_inv_fail {St R} (body : St -> prog (St + R)) st s r e s' :
  loops body st s r -> run (body st) s = Fail e s' -> r = Fail e s'.
Proof.
  intros H E. inversion H as [st0 s0 e0 s0' E0|st0 s0 x0 s0' E0|st0 s0 st2 s2 r0 E0 H0]; subst;
    rewrite E in E0; inversion E0; subst. reflexivity.
Qed.

(* the output of a loop that starts at [sigma data R out] extends [out] *)
Lemma loops_sigma_mono {St R} data (body : St -> prog (St + R)) st s r :
  loops body st s r -> forall R0 out, s = sigma data R0 out -> (R0 <= nbits data)%nat ->
  match r with
  | Done _ s' => exists R' out', s' = sigma data R' out' /\ (R0 <= R')%nat /\ (R' <= nbits data)%nat /\
                                 prefix_of out out'
  | Fail _ s' => prefix_of out (rev (a_out s'))
  end.
Proof.
  induction 1 as [st s e s' E|st s x s' E|st s st1 s1 r E H IH]; intros R0 out -> HR.
  - destruct (run_sigma_fail data _ R0 out e s' HR E) as (e' & s'' & E' & Hp).
    rewrite E in E'. inversion E'; subst. exact Hp.
  - apply (run_sigma_done data _ R0 out _ s' HR E).
  - destruct (run_sigma_done data _ R0 out _ s1 HR E) as (R1 & out1 & -> & H1 & H2 & H3).
    specialize (IH R1 out1 eq_refl H2). destruct r as [x s'|e s'].
    + destruct IH as (R' & out' & -> & G1 & G2 & G3). exists R', out'.
      split; [reflexivity|]. split; [lia|]. split; [exact G2|].
      eapply prefix_of_trans; eassumption.
    + eapply prefix_of_trans; eassumption.
Qed.
