(* Implementation-level model of flate.Reader (flate/reader.go, flate/prefix.go), composed
   from the implementation-level models of the three mechanisms it is built from:

     internal/prefix.Reader   -> Prefix/ReaderImpl.v  (bit buffer over a scripted source)
     internal/prefix.Decoder  -> Prefix/DecTable.v    (two-level lookup tables, recycled arrays)
     flate.dictDecoder        -> Window/Dict.v        (sliding window, lazy growth, recycled buffer)
     prefix.GeneratePrefixes  -> Prefix/Code.v        (gen_prefixes)

   Every function below mirrors the Go function of the same name line by line, fast paths
   included (TryReadSymbol / TryReadBits / TryWriteCopy falling back to the slow calls).

   Step functions run in a state + exception monad: [errors.Panic(e)] is [throw e] and leaves
   the state as the Go code has mutated it so far; [errors.Recover] is the handler in
   [one_round]. A Go run-time panic (index out of range, nil dereference, slice bounds) is
   the explicit error [EPanic]: it is NOT recovered by errors.Recover, the Read call never
   returns. [EFuel] stands for "the model's loop budget is exhausted / the Go loop never
   terminates / the tables are outside the range Prefix/DecTable.v models"; the theorems of
   Flate/ImplThms.v exclude both.

   Recycled storage. Reset keeps the window buffer (dd_init over [Some (d_arr ..)]) and the
   three Decoder objects (clenTree, pd1, pd2). A Decoder's chunks / linksFlat arrays keep
   their stale contents when their capacity suffices; the model keeps, per Decoder, the
   current contents of the two storages as functions ([ds_cmem], [ds_lmem]) and hands them
   to [dec_init] as [oldC]/[oldL] (always "recycled": a freshly made array is the special
   case of all-zero contents, and dec_init is proved independent of the old contents). *)
From V Require Import Base.Prelude Bzip2.Common Prefix.Code Prefix.ReaderImpl Prefix.DecTable Window.Dict.
From V Require Flate.Spec.

Local Open Scope N_scope.

(* ---- constants (flate/common.go, flate/prefix.go) ------------------------------------- *)
Definition maxHistSize : Z := 32768%Z.
Definition endBlockSym : N := 256.
Definition maxNumCLenSyms : N := 19.
Definition maxNumLitSyms : N := 286.
Definition maxNumDistSyms : N := 30.
Definition lenRanges : list (N * N) := Flate.Spec.lenRanges.
Definition distRanges : list (N * N) := Flate.Spec.distRanges.
Definition clenLens : list N := Flate.Spec.clenLens.

(* ---- a Decoder object together with the storage it recycles ---------------------------- *)
Record dslot := mkSlot {
  ds_dec : dec;
  ds_cmem : N -> N;          (* contents of the storage behind pd.chunks *)
  ds_lmem : N -> N           (* contents of the storage behind linksFlat (pd.links[0]) *)
}.

Definition overlay (a : arr) (m : N -> N) : N -> N :=
  fun i => match arr_get a i with Some v => v | None => m i end.

Definition empty_dec : dec := mkDec empty_arr empty_arr 0 0 0 0 0 0 0.
Definition fresh_slot : dslot := mkSlot empty_dec (fun _ => 0) (fun _ => 0).

(* pd.Init(codes) on a slot *)
Definition slot_init (s : dslot) (codes : list pcode) : ires dslot :=
  match dec_init (ds_cmem s) (ds_lmem s) codes with
  | IOk d => IOk (mkSlot d (overlay (d_chunks d) (ds_cmem s)) (overlay (d_flat d) (ds_lmem s)))
  | IPanic => IPanic
  | IOutOfModel => IOutOfModel
  end.

Definition set_min_bits (d : dec) (m : N) : dec :=
  mkDec (d_chunks d) (d_flat d) (d_nlinks d) (d_linkLen d) (d_chunkMask d) (d_linkMask d)
        (d_chunkBits d) m (d_numSyms d).

(* ---- the fixed tables decLit / decDist (package initialisation, fresh storage) ----------- *)
Definition fixed_lit_lens : list (N * N) :=
  map_tr (fun s => (s, if s <? 144 then 8 else if s <? 256 then 9 else if s <? 280 then 7 else 8))
         (iota 288).
Definition fixed_dist_lens : list (N * N) := map_tr (fun s => (s, 5)) (iota 32).

Definition fixed_dec (lens : list (N * N)) : ires dec :=
  match gen_prefixes lens with
  | GPOk codes => dec_init (fun _ => 0) (fun _ => 0) codes
  | GPInvalid => IPanic
  end.
Definition decLit : ires dec := fixed_dec fixed_lit_lens.
Definition decDist : ires dec := fixed_dec fixed_dist_lens.

(* ---- the Reader ------------------------------------------------------------------------- *)
Inductive fstep := StHeader | StRaw | StBlock.       (* zr.step *)
Inductive trees := TNil | TFixed | TDyn.              (* zr.litTree, zr.distTree *)

Record flst := mkFl {
  f_inOff : Z;                (* InputOffset *)
  f_outOff : Z;               (* OutputOffset *)
  f_rd : prd;                 (* rd.Reader *)
  f_clen : dslot;             (* rd.clenTree *)
  f_toRead : list byte;
  f_dist : Z;
  f_blkLen : Z;
  f_cpyLen : Z;
  f_last : bool;
  f_err : option err;
  f_step : fstep;
  f_stepState : bool;         (* false = stateInit, true = stateDict *)
  f_dict : dd;
  f_trees : trees;
  f_pd1 : dslot;
  f_pd2 : dslot
}.

Definition set_rd (st : flst) (p : prd) : flst :=
  mkFl (f_inOff st) (f_outOff st) p (f_clen st) (f_toRead st) (f_dist st) (f_blkLen st)
       (f_cpyLen st) (f_last st) (f_err st) (f_step st) (f_stepState st) (f_dict st)
       (f_trees st) (f_pd1 st) (f_pd2 st).
Definition set_clen (st : flst) (s : dslot) : flst :=
  mkFl (f_inOff st) (f_outOff st) (f_rd st) s (f_toRead st) (f_dist st) (f_blkLen st)
       (f_cpyLen st) (f_last st) (f_err st) (f_step st) (f_stepState st) (f_dict st)
       (f_trees st) (f_pd1 st) (f_pd2 st).
Definition set_toRead (st : flst) (l : list byte) : flst :=
  mkFl (f_inOff st) (f_outOff st) (f_rd st) (f_clen st) l (f_dist st) (f_blkLen st)
       (f_cpyLen st) (f_last st) (f_err st) (f_step st) (f_stepState st) (f_dict st)
       (f_trees st) (f_pd1 st) (f_pd2 st).
Definition set_dist (st : flst) (v : Z) : flst :=
  mkFl (f_inOff st) (f_outOff st) (f_rd st) (f_clen st) (f_toRead st) v (f_blkLen st)
       (f_cpyLen st) (f_last st) (f_err st) (f_step st) (f_stepState st) (f_dict st)
       (f_trees st) (f_pd1 st) (f_pd2 st).
Definition set_blkLen (st : flst) (v : Z) : flst :=
  mkFl (f_inOff st) (f_outOff st) (f_rd st) (f_clen st) (f_toRead st) (f_dist st) v
       (f_cpyLen st) (f_last st) (f_err st) (f_step st) (f_stepState st) (f_dict st)
       (f_trees st) (f_pd1 st) (f_pd2 st).
Definition set_cpyLen (st : flst) (v : Z) : flst :=
  mkFl (f_inOff st) (f_outOff st) (f_rd st) (f_clen st) (f_toRead st) (f_dist st) (f_blkLen st)
       v (f_last st) (f_err st) (f_step st) (f_stepState st) (f_dict st)
       (f_trees st) (f_pd1 st) (f_pd2 st).
Definition set_last (st : flst) (v : bool) : flst :=
  mkFl (f_inOff st) (f_outOff st) (f_rd st) (f_clen st) (f_toRead st) (f_dist st) (f_blkLen st)
       (f_cpyLen st) v (f_err st) (f_step st) (f_stepState st) (f_dict st)
       (f_trees st) (f_pd1 st) (f_pd2 st).
Definition set_err (st : flst) (v : option err) : flst :=
  mkFl (f_inOff st) (f_outOff st) (f_rd st) (f_clen st) (f_toRead st) (f_dist st) (f_blkLen st)
       (f_cpyLen st) (f_last st) v (f_step st) (f_stepState st) (f_dict st)
       (f_trees st) (f_pd1 st) (f_pd2 st).
Definition set_step (st : flst) (v : fstep) : flst :=
  mkFl (f_inOff st) (f_outOff st) (f_rd st) (f_clen st) (f_toRead st) (f_dist st) (f_blkLen st)
       (f_cpyLen st) (f_last st) (f_err st) v (f_stepState st) (f_dict st)
       (f_trees st) (f_pd1 st) (f_pd2 st).
Definition set_stepState (st : flst) (v : bool) : flst :=
  mkFl (f_inOff st) (f_outOff st) (f_rd st) (f_clen st) (f_toRead st) (f_dist st) (f_blkLen st)
       (f_cpyLen st) (f_last st) (f_err st) (f_step st) v (f_dict st)
       (f_trees st) (f_pd1 st) (f_pd2 st).
Definition set_dict (st : flst) (v : dd) : flst :=
  mkFl (f_inOff st) (f_outOff st) (f_rd st) (f_clen st) (f_toRead st) (f_dist st) (f_blkLen st)
       (f_cpyLen st) (f_last st) (f_err st) (f_step st) (f_stepState st) v
       (f_trees st) (f_pd1 st) (f_pd2 st).
Definition set_trees (st : flst) (v : trees) : flst :=
  mkFl (f_inOff st) (f_outOff st) (f_rd st) (f_clen st) (f_toRead st) (f_dist st) (f_blkLen st)
       (f_cpyLen st) (f_last st) (f_err st) (f_step st) (f_stepState st) (f_dict st)
       v (f_pd1 st) (f_pd2 st).
Definition set_pd1 (st : flst) (v : dslot) : flst :=
  mkFl (f_inOff st) (f_outOff st) (f_rd st) (f_clen st) (f_toRead st) (f_dist st) (f_blkLen st)
       (f_cpyLen st) (f_last st) (f_err st) (f_step st) (f_stepState st) (f_dict st)
       (f_trees st) v (f_pd2 st).
Definition set_pd2 (st : flst) (v : dslot) : flst :=
  mkFl (f_inOff st) (f_outOff st) (f_rd st) (f_clen st) (f_toRead st) (f_dist st) (f_blkLen st)
       (f_cpyLen st) (f_last st) (f_err st) (f_step st) (f_stepState st) (f_dict st)
       (f_trees st) (f_pd1 st) v.
Definition set_inOff (st : flst) (v : Z) : flst :=
  mkFl v (f_outOff st) (f_rd st) (f_clen st) (f_toRead st) (f_dist st) (f_blkLen st)
       (f_cpyLen st) (f_last st) (f_err st) (f_step st) (f_stepState st) (f_dict st)
       (f_trees st) (f_pd1 st) (f_pd2 st).
Definition set_outOff (st : flst) (v : Z) : flst :=
  mkFl (f_inOff st) v (f_rd st) (f_clen st) (f_toRead st) (f_dist st) (f_blkLen st)
       (f_cpyLen st) (f_last st) (f_err st) (f_step st) (f_stepState st) (f_dict st)
       (f_trees st) (f_pd1 st) (f_pd2 st).

(* ---- the step monad: state + errors.Panic ------------------------------------------------ *)
Inductive res (A : Type) : Type :=
| ROk (a : A)
| RThrow (e : err).          (* errors.Panic(e); EPanic = a Go run-time panic *)
Arguments ROk {A} a.
Arguments RThrow {A} e.

Definition M (A : Type) : Type := flst -> res A * flst.

Definition ret {A} (a : A) : M A := fun st => (ROk a, st).
Definition throw {A} (e : err) : M A := fun st => (RThrow e, st).
Definition mbind {A B} (m : M A) (f : A -> M B) : M B :=
  fun st => match m st with
            | (ROk a, st') => f a st'
            | (RThrow e, st') => (RThrow e, st')
            end.
Definition mget : M flst := fun st => (ROk st, st).
Definition mupd (f : flst -> flst) : M unit := fun st => (ROk tt, f st).

Declare Scope fl_scope.
Delimit Scope fl_scope with fl.
Notation "x <- m ;; k" := (mbind m (fun x => k))
  (at level 61, m at next level, right associativity) : fl_scope.
Notation "m ;;; k" := (mbind m (fun _ => k))
  (at level 61, right associativity) : fl_scope.
Local Open Scope fl_scope.

(* panicf(errors.Corrupted, ...) *)
Definition corrupted {A} : M A := throw ECorrupted.

(* ---- the bit reader inside the Reader ----------------------------------------------------- *)
(* pr.ReadBits(nb) *)
Definition m_read_bits (nb : N) : M N := fun st =>
  let '(o, p') := read_bits (f_rd st) nb in
  match o with
  | Some v => (ROk v, set_rd st p')
  | None => (RThrow EUEOF, set_rd st p')
  end.

(* pr.TryReadBits(nb) *)
Definition try_read_bits (p : prd) (nb : N) : option N * prd :=
  if p_numBits p <? nb then (None, p)
  else let '(v, p') := take_bits p nb in (Some v, p').

Definition m_try_read_bits (nb : N) : M (option N) := fun st =>
  let '(o, p') := try_read_bits (f_rd st) nb in (ROk o, set_rd st p').

(* val, ok := TryReadBits(nb); if !ok { val = ReadBits(nb) } *)
Definition m_bits_fast (nb : N) : M N :=
  o <- m_try_read_bits nb ;;
  match o with Some v => ret v | None => m_read_bits nb end.

(* pr.ReadPads() *)
Definition m_read_pads : M N := fun st =>
  let '(v, p') := read_pads (f_rd st) in (ROk v, set_rd st p').

(* pr.ReadSymbol(pd) *)
Definition m_read_symbol (d : dec) : M N := fun st =>
  let '(r, p') := dt_read_symbol d (f_rd st) in
  (match r with
   | RSym s => ROk s
   | RUEOF => RThrow EUEOF
   | RInvalid => RThrow EInvalid         (* "decode with empty prefix tree" *)
   | RPanic => RThrow EPanic
   | RFuel => RThrow EFuel
   end, set_rd st p').

(* sym, ok := TryReadSymbol(pd); if !ok { sym = ReadSymbol(pd) } *)
Definition m_symbol_fast (d : dec) : M N := fun st =>
  let '(r, p') := try_read_symbol d (f_rd st) in
  match r with
  | None => (RThrow EPanic, set_rd st p')
  | Some (Some s) => (ROk s, set_rd st p')
  | Some None => m_read_symbol d (set_rd st p')
  end.

(* ---- the window inside the Reader ----------------------------------------------------------- *)
Definition of_dres {A} (r : dres A) : res A :=
  match r with
  | Ok a => ROk a
  | Panic => RThrow EPanic
  | Hang => RThrow EFuel
  | Fuel => RThrow EFuel
  end.

(* zr.toRead = zr.dict.ReadFlush() *)
Definition m_flush_to_read : M unit := fun st =>
  match read_flush (f_dict st) with
  | Ok (bs, d') => (ROk tt, set_toRead (set_dict st d') bs)
  | Panic => (RThrow EPanic, st)
  | Hang => (RThrow EFuel, st)
  | Fuel => (RThrow EFuel, st)
  end.

Definition m_dict {A} (f : dd -> dres (A * dd)) : M A := fun st =>
  match f (f_dict st) with
  | Ok (a, d') => (ROk a, set_dict st d')
  | Panic => (RThrow EPanic, st)
  | Hang => (RThrow EFuel, st)
  | Fuel => (RThrow EFuel, st)
  end.

Definition m_write_byte (c : byte) : M unit :=
  m_dict (fun d => match write_byte d c with
                   | Ok d' => Ok (tt, d') | Panic => Panic | Hang => Hang | Fuel => Fuel end).

(* ---- flate/prefix.go ---------------------------------------------------------------------------- *)
(* handleDegenerateCodes *)
Definition handle_degenerate (codes : list (N * N)) (maxSyms : N) : list (N * N) :=
  match codes with
  | [c] => [c; (maxSyms, 1)]
  | _ => codes
  end.

(* if err := prefix.GeneratePrefixes(codes); err != nil { errors.Panic(err) } *)
Definition m_gen_prefixes (codes : list (N * N)) : M (list pcode) :=
  match gen_prefixes codes with
  | GPOk out => ret out
  | GPInvalid => throw EInvalid
  end.

Definition of_ires {A} (r : ires A) : res A :=
  match r with
  | IOk a => ROk a
  | IPanic => RThrow EPanic
  | IOutOfModel => RThrow EFuel
  end.

(* set index i of a list (an array assignment; the index is in range or it is a panic) *)
Fixpoint list_set {A} (l : list A) (i : nat) (v : A) : option (list A) :=
  match l, i with
  | [], _ => None
  | _ :: r, O => Some (v :: r)
  | x :: r, S i' => match list_set r i' v with Some r' => Some (x :: r') | None => None end
  end.

(* for _, sym := range clenLens[:numCLenSyms] { clen := ReadBits(3); if clen > 0 { arr[sym] = .. } } *)
Fixpoint read_clens_arr (order : list N) (arr : list N) : M (list N) :=
  match order with
  | [] => ret arr
  | sym :: r =>
    clen <- m_read_bits 3 ;;
    if 0 <? clen then
      match list_set arr (N.to_nat sym) clen with
      | Some arr' => read_clens_arr r arr'
      | None => throw EPanic
      end
    else read_clens_arr r arr
  end.

(* compaction: the entries with Len > 0, in index order, as (Sym, Len) *)
Fixpoint compact_from (i : N) (arr : list N) : list (N * N) :=
  match arr with
  | [] => []
  | l :: r => if 0 <? l then (i, l) :: compact_from (i + 1) r else compact_from (i + 1) r
  end.

(* state of the code-length loop: sym, clenLast, codeLits, codeDists (both reversed) *)
Record cls := mkCls { c_sym' : N; c_last : N; c_lits : list (N * N); c_dists : list (N * N) }.

Definition append_code (numLit : N) (s : cls) (sym clen : N) : cls :=
  if sym <? numLit
  then mkCls (c_sym' s) (c_last s) ((sym, clen) :: c_lits s) (c_dists s)
  else mkCls (c_sym' s) (c_last s) (c_lits s) ((sym - numLit, clen) :: c_dists s).

(* for symEnd := sym + repCnt; sym < symEnd; sym++ { appendCode(sym, clen) } *)
Fixpoint rep_append (n : nat) (numLit : N) (s : cls) (sym clen : N) : cls :=
  match n with
  | O => s
  | S n' => rep_append n' numLit (append_code numLit s sym clen) (sym + 1) clen
  end.

Fixpoint clen_loop (fuel : nat) (numLit maxSyms : N) (s : cls) : M cls :=
  match fuel with
  | O => throw EFuel
  | S f =>
    if negb (c_sym' s <? maxSyms) then ret s else
    st <- mget ;;
    clen <- m_read_symbol (ds_dec (f_clen st)) ;;
    if clen <? 16 then
      let s1 := if 0 <? clen then append_code numLit s (c_sym' s) clen else s in
      clen_loop f numLit maxSyms (mkCls (c_sym' s + 1) clen (c_lits s1) (c_dists s1))
    else
      cr <- (if clen =? 16 then
               if c_sym' s =? 0 then corrupted
               else x <- m_read_bits 2 ;; ret (c_last s, 3 + x)
             else if clen =? 17 then x <- m_read_bits 3 ;; ret (0, 3 + x)
             else if clen =? 18 then x <- m_read_bits 7 ;; ret (0, 11 + x)
             else corrupted) ;;
      let '(cl, repCnt) := cr in
      let s1 := if 0 <? cl then rep_append (N.to_nat repCnt) numLit s (c_sym' s) cl else s in
      let sym' := c_sym' s + repCnt in
      if maxSyms <? sym' then corrupted
      else clen_loop f numLit maxSyms (mkCls sym' cl (c_lits s1) (c_dists s1))
  end.

(* for i := len(codeLits)-1; i >= 0; i-- { if Sym == 256 && Len > 0 { MinBits = Len; break } } *)
Fixpoint eob_len (rev_codes : list pcode) : option N :=
  match rev_codes with
  | [] => None
  | c :: r => if (c_sym c =? 256) && (0 <? c_len c) then Some (c_len c) else eob_len r
  end.

(* pd.Init(codes) for one of the three Decoder objects *)
Definition m_slot_init (get : flst -> dslot) (set : flst -> dslot -> flst) (codes : list pcode) : M unit :=
  fun st => match slot_init (get st) codes with
            | IOk s' => (ROk tt, set st s')
            | IPanic => (RThrow EPanic, st)
            | IOutOfModel => (RThrow EFuel, st)
            end.

(* prefixReader.ReadPrefixCodes(&zr.pd1, &zr.pd2) *)
Definition read_prefix_codes : M unit :=
  hlit <- m_read_bits 5 ;;
  hdist <- m_read_bits 5 ;;
  hclen <- m_read_bits 4 ;;
  let numLit := hlit + 257 in
  let numDist := hdist + 1 in
  let numCLen := hclen + 4 in
  if (maxNumLitSyms <? numLit) || (maxNumDistSyms <? numDist) then corrupted else
  (* clenLens[:numCLenSyms]: numCLenSyms <= 19 = len(clenLens) or a slice-bounds panic *)
  if N.of_nat (length clenLens) <? numCLen then throw EPanic else
  arr <- read_clens_arr (firstn (N.to_nat numCLen) clenLens) (repeat 0 19%nat) ;;
  let codeCLens := handle_degenerate (compact_from 0 arr) maxNumCLenSyms in
  cc <- m_gen_prefixes codeCLens ;;
  m_slot_init f_clen set_clen cc ;;;
  s <- clen_loop 400%nat numLit (numLit + numDist) (mkCls 0 0 [] []) ;;
  let codeLits := handle_degenerate (fast_rev (c_lits s)) maxNumLitSyms in
  lc <- m_gen_prefixes codeLits ;;
  m_slot_init f_pd1 set_pd1 lc ;;;
  let codeDists := handle_degenerate (fast_rev (c_dists s)) maxNumDistSyms in
  dc <- m_gen_prefixes codeDists ;;
  m_slot_init f_pd2 set_pd2 dc ;;;
  st <- mget ;;
  if negb (p_buffered (f_rd st)) then
    match eob_len (fast_rev lc) with
    | Some l =>
      mupd (fun st => set_pd1 st (mkSlot (set_min_bits (ds_dec (f_pd1 st)) l)
                                         (ds_cmem (f_pd1 st)) (ds_lmem (f_pd1 st))))
    | None => ret tt
    end
  else ret tt.

(* ---- flate/reader.go ------------------------------------------------------------------------------ *)
(* finishBlock *)
Definition finish_block : M unit :=
  st <- mget ;;
  (if f_last st then
     m_read_pads ;;; mupd (fun st => set_err st (Some EEOF))
   else ret tt) ;;;
  mupd (fun st => set_step st StHeader).

(* readBlockHeader *)
Definition read_block_header : M unit :=
  l <- m_read_bits 1 ;;
  mupd (fun st => set_last st (l =? 1)) ;;;
  typ <- m_read_bits 2 ;;
  if typ =? 0 then
    m_read_pads ;;;
    n <- m_read_bits 16 ;;
    nn <- m_read_bits 16 ;;
    let n16 := n mod 65536 in
    let nn16 := nn mod 65536 in
    if negb (N.lxor n16 nn16 =? 65535) then corrupted else
    mupd (fun st => set_blkLen st (Z.of_N n16)) ;;;
    if n16 =? 0 then
      m_flush_to_read ;;; finish_block
    else mupd (fun st => set_step st StRaw)
  else if typ =? 1 then
    mupd (fun st => set_step (set_trees st TFixed) StBlock)
  else if typ =? 2 then
    mupd (fun st => set_trees st TDyn) ;;;
    read_prefix_codes ;;;
    mupd (fun st => set_step st StBlock)
  else corrupted.

(* readRawData *)
Definition read_raw_data : M unit :=
  st <- mget ;;
  let dict := f_dict st in
  (* buf := zr.dict.WriteSlice() : hist[wrPos:] *)
  if negb (slice_ok (d_len dict) (d_wr dict) (d_len dict)) then throw EPanic else
  let avail := (d_len dict - d_wr dict)%Z in
  let k := if (f_blkLen st <? avail)%Z then f_blkLen st else avail in
  (* buf[:blkLen] with a negative blkLen would be a slice-bounds panic *)
  if (k <? 0)%Z then throw EPanic else
  let '((bs, e), p') := read_raw (f_rd st) (Z.to_nat k) in
  mupd (fun st => set_blkLen (set_rd st p') (f_blkLen st - zlen bs)%Z) ;;;
  m_dict (fun d => write_raw d bs) ;;;
  (if e =? 0 then ret tt
   else if e =? 1 then throw EUEOF          (* io.EOF -> io.ErrUnexpectedEOF *)
   else if e =? 2 then throw EInvalid       (* non-aligned bit buffer *)
   else throw EUEOF) ;;;                    (* short Discard: the scripted source reports io.EOF *)
  st <- mget ;;
  if (0 <? f_blkLen st)%Z then
    m_flush_to_read ;;; mupd (fun st => set_step st StRaw)
  else finish_block.

(* the decoder zr.litTree / zr.distTree points to; nil = a nil dereference *)
Definition lit_tree (st : flst) : res dec :=
  match f_trees st with
  | TNil => RThrow EPanic
  | TFixed => of_ires decLit
  | TDyn => ROk (ds_dec (f_pd1 st))
  end.
Definition dist_tree (st : flst) : res dec :=
  match f_trees st with
  | TNil => RThrow EPanic
  | TFixed => of_ires decDist
  | TDyn => ROk (ds_dec (f_pd2 st))
  end.
Definition m_tree (f : flst -> res dec) : M dec := fun st => (f st, st).

(* rec := ranges[i] *)
Definition m_range (rs : list (N * N)) (i : N) : M (N * N) :=
  match nth_error rs (N.to_nat i) with
  | Some r => ret r
  | None => throw EPanic
  end.

(* readBlock: [copying] = false at label readLiteral, true at label copyDistance *)
Fixpoint read_block_loop (fuel : nat) (copying : bool) : M unit :=
  match fuel with
  | O => throw EFuel
  | S f =>
    if copying then
      st <- mget ;;
      cnt0 <- m_dict (fun d => try_write_copy d (f_dist st) (f_cpyLen st)) ;;
      cnt <- (if (cnt0 =? 0)%Z then m_dict (fun d => write_copy d (f_dist st) (f_cpyLen st))
              else ret cnt0) ;;
      mupd (fun st => set_cpyLen st (f_cpyLen st - cnt)%Z) ;;;
      st <- mget ;;
      if (0 <? f_cpyLen st)%Z then
        m_flush_to_read ;;;
        mupd (fun st => set_stepState (set_step st StBlock) true)
      else read_block_loop f false
    else
      st <- mget ;;
      if (avail_size (f_dict st) =? 0)%Z then
        m_flush_to_read ;;;
        mupd (fun st => set_stepState (set_step st StBlock) false)
      else
        lt <- m_tree lit_tree ;;
        litSym <- m_symbol_fast lt ;;
        if litSym <? endBlockSym then
          m_write_byte (litSym mod 256) ;;;
          read_block_loop f false
        else if litSym =? endBlockSym then
          finish_block ;;;
          mupd (fun st => set_stepState st false)
        else if litSym <? maxNumLitSyms then
          rc <- m_range lenRanges (litSym - 257) ;;
          extra <- m_bits_fast (snd rc) ;;
          mupd (fun st => set_cpyLen st (Z.of_N (fst rc) + Z.of_N extra)%Z) ;;;
          dt <- m_tree dist_tree ;;
          distSym <- m_symbol_fast dt ;;
          if maxNumDistSyms <=? distSym then corrupted else
          rc2 <- m_range distRanges distSym ;;
          extra2 <- m_bits_fast (snd rc2) ;;
          mupd (fun st => set_dist st (Z.of_N (fst rc2) + Z.of_N extra2)%Z) ;;;
          st <- mget ;;
          if (hist_size (f_dict st) <? f_dist st)%Z then corrupted
          else read_block_loop f true
        else corrupted
  end.

(* one iteration of the loop either ends the step or advances the write position; there are
   at most AvailSize of those, plus the entry at copyDistance and the final one *)
Definition read_block : M unit :=
  st <- mget ;;
  read_block_loop (2 * Z.to_nat (avail_size (f_dict st)) + 4) (f_stepState st).

Definition run_step : M unit :=
  st <- mget ;;
  match f_step st with
  | StHeader => read_block_header
  | StRaw => read_raw_data
  | StBlock => read_block
  end.

(* errWrap(err, errors.Corrupted) *)
Definition err_wrap (e : err) : err :=
  match e with EInvalid => ECorrupted | _ => e end.

Definition crashed (e : err) : bool :=
  match e with EPanic | EFuel => true | _ => false end.

(* the body of the for loop of Read below the two early returns (toRead is empty, err is nil).
   A crash (Go run-time panic / exhausted model budget) is latched as the error with nothing
   left to deliver: the real Read call never returns. *)
Definition crash (st : flst) (e : err) : flst := set_toRead (set_err st (Some e)) [].

Definition one_round (st : flst) : flst :=
  (* zr.rd.Offset = zr.InputOffset *)
  let p := f_rd st in
  let st0 := set_rd st (mkPrd (p_src p) (p_buffered p) (p_big p) (p_bufBits p) (p_numBits p)
                              (p_peek p) (p_discard p) (p_fed p) (f_inOff st)) in
  (* func() { defer errors.Recover(&zr.err); zr.step(zr) }() *)
  let '(r, st1) := run_step st0 in
  match (match r with
         | RThrow e => if crashed e then inr e else inl (set_err st1 (Some e))
         | ROk _ => inl st1
         end) with
  | inr e => crash st1 e
  | inl st2 =>
    (* if zr.InputOffset, err = zr.rd.Flush(); err != nil { zr.err = err } *)
    let '(short, p') := flush (f_rd st2) in
    let st3 := set_inOff (set_rd st2 p') (p_offset p') in
    let st4 := if short then set_err st3 (Some EEOF) else st3 in   (* the scripted Discard reports io.EOF *)
    (* zr.err = errWrap(zr.err, errors.Corrupted) *)
    let st5 := set_err st4 (option_map err_wrap (f_err st4)) in
    (* if zr.err != nil && len(zr.toRead) == 0 { zr.toRead = zr.dict.ReadFlush() } *)
    match f_err st5, f_toRead st5 with
    | Some _, [] => match read_flush (f_dict st5) with
                    | Ok (bs, d') => set_toRead (set_dict st5 d') bs
                    | Panic => crash st5 EPanic
                    | Hang => crash st5 EFuel
                    | Fuel => crash st5 EFuel
                    end
    | _, _ => st5
    end
  end.

(* is one of the two early returns of the loop enabled *)
Definition ready (st : flst) : bool :=
  match f_toRead st, f_err st with
  | [], None => false
  | _, _ => true
  end.

(* up to 2^d rounds, until ready *)
Fixpoint rounds (d : nat) (st : flst) : flst :=
  if ready st then st else
  match d with
  | O => one_round st
  | S d' => let st' := rounds d' st in if ready st' then st' else rounds d' st'
  end.

(* every round that leaves the Reader not ready has consumed input bits or has just made
   room in a full window: 2 * (8 * input bytes) + a few rounds suffice *)
Definition round_depth (st : flst) : nat :=
  S (S (S (S (N.to_nat (N.log2 (8 * N.of_nat (length (s_data (p_src (f_rd st)))) + 64)))))).

(* Read(buf) with len(buf) = n: (bytes stored in buf, the error returned) *)
Definition fl_read (st : flst) (n : nat) : (list byte * option err) * flst :=
  let st1 := if ready st then st else rounds (round_depth st) st in
  match f_toRead st1 with
  | _ :: _ =>
    let out := firstn n (f_toRead st1) in
    let rest := skipn n (f_toRead st1) in
    let st2 := set_outOff (set_toRead st1 rest) (f_outOff st1 + zlen out)%Z in
    match rest with
    | [] => ((out, f_err st2), st2)
    | _ => ((out, None), st2)
    end
  | [] =>
    match f_err st1 with
    | Some e => (([], Some e), st1)
    | None => (([], Some EFuel), set_err st1 (Some EFuel))     (* budget of [rounds] exhausted *)
    end
  end.

(* NewReader(r, nil): r is the scripted source over [data]; buffered = r is a
   compress.BufferedReader, otherwise a compress.ByteReader *)
Definition fl_new (data : list byte) (buffered : bool) (fills reads : list nat) : dres flst :=
  match dd_init maxHistSize None with
  | Ok dict =>
    Ok (mkFl 0%Z 0%Z (init data buffered false fills reads) fresh_slot [] 0%Z 0%Z 0%Z false None
             StHeader false dict TNil fresh_slot fresh_slot)
  | Panic => Panic | Hang => Hang | Fuel => Fuel
  end.

(* zr.Reset(r): keeps rd (re-initialised; clenTree survives), dict (re-initialised over its
   buffer), pd1, pd2 *)
Definition fl_reset (st : flst) (data : list byte) (buffered : bool) (fills reads : list nat) : dres flst :=
  match dd_init maxHistSize (Some (d_arr (f_dict st))) with
  | Ok dict =>
    Ok (mkFl 0%Z 0%Z (init data buffered false fills reads) (f_clen st) [] 0%Z 0%Z 0%Z false None
             StHeader false dict TNil (f_pd1 st) (f_pd2 st))
  | Panic => Panic | Hang => Hang | Fuel => Fuel
  end.

(* ---- histories, as the correspondence harness observes them --------------------------------- *)
Record flobs := mkFlobs {
  fo_bytes : list byte;
  fo_err : option err;
  fo_inOff : Z;
  fo_outOff : Z;
  fo_srcPos : nat
}.

Definition obs_of (r : list byte * option err) (st : flst) : flobs :=
  mkFlobs (fst r) (snd r) (f_inOff st) (f_outOff st) (s_pos (p_src (f_rd st))).

(* Read with the given buffer sizes until an error is returned or the schedule ends *)
Fixpoint fl_run (st : flst) (sched : list nat) : list flobs * flst :=
  match sched with
  | [] => ([], st)
  | n :: r =>
    let '(o, st') := fl_read st n in
    match snd o with
    | Some _ => ([obs_of o st'], st')
    | None => let '(l, fin) := fl_run st' r in (obs_of o st' :: l, fin)
    end
  end.
