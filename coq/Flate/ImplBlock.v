(* Block body simulation: readBlock of the implementation model (Flate/Impl.v read_block_loop,
   resumable at the labels readLiteral / copyDistance, with the window flush points) against
   the budget-free reading [loops (block_body tl td)] of the specification's block loop. *)
From V Require Import Base.Prelude Base.Prog Base.ProgThms Base.DepthThms Base.FuelThms Bzip2.Common Prefix.Code
  Prefix.ReaderImpl Prefix.ReaderSpec Prefix.ReaderThms
  Prefix.DecTable Prefix.DecTableSpec Prefix.DecTableThms Prefix.DecReadThms Prefix.DecReadBufThms
  Window.Dict Window.DictSpec Window.DictThms.
From V Require Flate.Spec.
From V Require Import Flate.Impl Flate.ImplRel Flate.ImplBits Flate.SpecChar Flate.ImplWin Flate.ImplCore
  Flate.SigmaThms Flate.ImplSym Flate.ImplFail.
From Coq Require Import ZifyBool ZifyN ZifyNat.

Local Open Scope N_scope.
Local Open Scope fl_scope.
Local Transparent post.

(* ---- small facts ------------------------------------------------------------------------------ *)
Lemma mbind_assoc {A B C} (m : M A) (f : A -> M B) (g : B -> M C) st :
  mbind (mbind m f) g st = mbind m (fun a => mbind (f a) g) st.
Proof. unfold mbind. destruct (m st) as [[a|e] st']; [|reflexivity]. reflexivity. Qed.

Lemma mbind_cong {A B} (m : M A) (f g : A -> M B) st :
  (forall a st', f a st' = g a st') -> mbind m f st = mbind m g st.
Proof. intros H. unfold mbind. destruct (m st) as [[a|e] st']; [apply H | reflexivity]. Qed.

Lemma lz_copy_add out d a : forall b out0, out0 = out ->
  lz_copy (lz_copy out0 d a) d b = lz_copy out d (a + b).
Proof.
  intros b out0 ->. revert out. induction a as [|a IH]; intros out; cbn [lz_copy Nat.add]; [reflexivity|].
  apply IH.
Qed.

Lemma sval_lt data R nb : sval data R nb < 2 ^ nb.
Proof.
  unfold sval, bits_at.
  eapply N.lt_le_trans; [apply bits_val_bound|].
  apply N.pow_le_mono_r; [lia|]. rewrite firstn_length. lia.
Qed.

Definition len_range_ok (r : N * N) : bool :=
  (3 <=? fst r) && (fst r + 2 ^ snd r <=? 259) && (snd r <=? 5).
Definition dist_range_ok (r : N * N) : bool :=
  (1 <=? fst r) && (fst r + 2 ^ snd r <=? 32769) && (snd r <=? 13).

Lemma lenRanges_ok : forallb len_range_ok lenRanges = true.
Proof. vm_compute. reflexivity. Qed.
Lemma distRanges_ok : forallb dist_range_ok distRanges = true.
Proof. vm_compute. reflexivity. Qed.
Lemma lenRanges_len : length lenRanges = 29%nat.
Proof. reflexivity. Qed.
Lemma distRanges_len : length distRanges = 30%nat.
Proof. reflexivity. Qed.

Lemma range_get (rs : list (N * N)) i : (N.to_nat i < length rs)%nat ->
  exists r, nth_error rs (N.to_nat i) = Some r /\ Flate.Spec.nth_range rs i = r /\ In r rs.
Proof.
  intros H. destruct (nth_error rs (N.to_nat i)) as [r|] eqn:E.
  - exists r. split; [reflexivity|]. split.
    + unfold Flate.Spec.nth_range. apply nth_error_nth. exact E.
    + eapply nth_error_In. exact E.
  - apply nth_error_None in E. lia.
Qed.

Lemma m_range_ok rs i r st : nth_error rs (N.to_nat i) = Some r -> m_range rs i st = (ROk r, st).
Proof. intros E. unfold m_range. rewrite E. reflexivity. Qed.

(* fields no step of the block loop touches *)
Definition same_static (st st' : flst) : Prop :=
  f_inOff st' = f_inOff st /\ f_outOff st' = f_outOff st /\ f_last st' = f_last st /\
  f_trees st' = f_trees st /\ f_pd1 st' = f_pd1 st /\ f_pd2 st' = f_pd2 st /\
  f_clen st' = f_clen st /\ f_blkLen st' = f_blkLen st.

Lemma same_static_refl st : same_static st st.
Proof. repeat split. Qed.

Lemma same_static_trans a b c : same_static a b -> same_static b c -> same_static a c.
Proof.
  intros (A1&A2&A3&A4&A5&A6&A7&A8) (B1&B2&B3&B4&B5&B6&B7&B8).
  repeat split; congruence.
Qed.

Ltac fl_simpl :=
  cbn [f_inOff f_outOff f_rd f_clen f_toRead f_dist f_blkLen f_cpyLen f_last f_err f_step
       f_stepState f_dict f_trees f_pd1 f_pd2
       set_rd set_clen set_toRead set_dist set_blkLen set_cpyLen set_last set_err set_step
       set_stepState set_dict set_trees set_pd1 set_pd2 set_inOff set_outOff] in *.

Lemma lit_tree_static st st' : same_static st st' -> lit_tree st' = lit_tree st.
Proof. intros (_&_&_&H4&H5&_). unfold lit_tree. rewrite H4, H5. reflexivity. Qed.
Lemma dist_tree_static st st' : same_static st st' -> dist_tree st' = dist_tree st.
Proof. intros (_&_&_&H4&_&H6&_). unfold dist_tree. rewrite H4, H6. reflexivity. Qed.

Lemma w2_pending dc out fl : WInv2 dc out fl -> avail_size dc = 0%Z -> zskipn fl out <> [].
Proof.
  intros HW Ha Hnil. pose proof (w2_fl _ _ _ HW) as Hfl. destruct HW as [_ H2].
  assert (Hl : length (zskipn fl out) = O) by (rewrite Hnil; reflexivity).
  unfold zskipn in Hl. rewrite skipn_length in Hl. unfold zlen in *.
  assert (E : fl = Z.of_nat (length out)) by lia. specialize (H2 E). lia.
Qed.

Section Block.
Variable data : list byte.
Hypothesis Hd : forall b, In b data -> b < 256.
Variables (lt dt : dec) (tl td : Flate.Spec.htree) (ml md : N) (dv : bool) (lenfl lenfd : N -> N).
Hypothesis HSl : SymOK data lt tl ml dv lenfl.
Hypothesis HSd : SymOK data dt td md false lenfd.
Hypothesis HTl : TreeLen data tl lenfl.
Hypothesis HFl : SymFailOK data lt.
Hypothesis HFd : SymFailOK data dt.
Hypothesis HBF : BitsFailOK data.
Variable ks : N.
Hypothesis Hks : (ks = 0 /\ dv = false) \/ (ks = ml /\ lenfl 256 = ml).

Notation body := (Flate.Spec.block_body tl td).

Definition cfg (st : flst) : Prop := lit_tree st = ROk lt /\ dist_tree st = ROk dt.

Lemma cfg_static st st' : same_static st st' -> cfg st -> cfg st'.
Proof.
  intros H [H1 H2]. split; [rewrite (lit_tree_static _ _ H) | rewrite (dist_tree_static _ _ H)]; assumption.
Qed.

(* the slack after a literal/length symbol of length l is again within ks *)
Lemma slack_lit k l : k <= ks -> (dv = false -> ml <= l) -> 1 <= l -> N.max k ml - l <= ks.
Proof.
  intros Hk Hl H1. destruct Hks as [[-> Hdv]|[-> _]].
  - specialize (Hl Hdv). lia.
  - lia.
Qed.

(* ---- the length/distance part of a command ---------------------------------------------------- *)
Definition cmd_part (litSym : N) : M unit :=
  rc <- m_range lenRanges (litSym - 257) ;;
  extra <- m_bits_fast (snd rc) ;;
  mupd (fun st => set_cpyLen st (Z.of_N (fst rc) + Z.of_N extra)%Z) ;;;
  dtr <- m_tree dist_tree ;;
  distSym <- m_symbol_fast dtr ;;
  if maxNumDistSyms <=? distSym then corrupted else
  rc2 <- m_range distRanges distSym ;;
  extra2 <- m_bits_fast (snd rc2) ;;
  mupd (fun st => set_dist st (Z.of_N (fst rc2) + Z.of_N extra2)%Z) ;;;
  st <- mget ;;
  if (hist_size (f_dict st) <? f_dist st)%Z then corrupted else ret tt.

(* the specification's continuation after a length symbol *)
Definition spec_cmd (litSym : N) : prog (unit + unit) :=
  let '(base, nb) := Flate.Spec.nth_range Flate.Spec.lenRanges (litSym - 257) in
  bind (Flate.Spec.rbits nb) (fun extra =>
  let cpyLen := base + extra in
  bind (Flate.Spec.sym_or_corrupt td) (fun distSym =>
  bind (assert_p (distSym <? Flate.Spec.maxNumDistSyms) ECorrupted) (fun _ =>
  let '(dbase, dnb) := Flate.Spec.nth_range Flate.Spec.distRanges distSym in
  bind (Flate.Spec.rbits dnb) (fun dextra =>
  let dist := dbase + dextra in
  Hist (fun h =>
    bind (assert_p (dist <=? N.min h Flate.Spec.maxHistSize) ECorrupted) (fun _ =>
    Copy dist cpyLen (Ret (inl tt)))))))).

Lemma block_body_unfold u :
  body u =
  bind (Flate.Spec.sym_or_corrupt tl) (fun litSym =>
    if litSym <? 256 then Put litSym (Ret (inl tt))
    else if litSym =? 256 then Ret (inr tt)
    else if litSym <? Flate.Spec.maxNumLitSyms then spec_cmd litSym
    else Throw ECorrupted).
Proof. reflexivity. Qed.

Lemma fails_same {A B} e out (r : result A) (r' : result B) :
  fails e out r -> (forall s', r = Fail e s' -> r' = Fail e s') -> fails e out r'.
Proof. intros (s' & E & Ho) H. exists s'. split; [apply H; exact E | exact Ho]. Qed.

Lemma cmd_part_sim litSym st k R out fl :
  257 <= litSym -> litSym < 286 ->
  cfg st -> BIs data k R (f_rd st) -> k <= ks -> WInv2 (f_dict st) out fl ->
  let r := run (spec_cmd litSym) (sigma data R out) in
  match cmd_part litSym st with
  | (ROk _, st') =>
      exists R', (R <= R')%nat /\
        r = Done (inl tt) (sigma data R' (lz_copy out (f_dist st') (Z.to_nat (f_cpyLen st')))) /\
        (3 <= f_cpyLen st' <= 258)%Z /\ (0 < f_dist st' <= Z.min maxHistSize (zlen out))%Z /\
        BIs data ks R' (f_rd st') /\ f_dict st' = f_dict st /\ same_static st st' /\
        f_toRead st' = f_toRead st /\ f_err st' = f_err st /\ f_step st' = f_step st /\
        f_stepState st' = f_stepState st /\ p_buffered (f_rd st') = p_buffered (f_rd st)
  | (RThrow e, st') =>
      (e = EUEOF \/ e = ECorrupted \/ e = EInvalid) /\ fails (err_wrap e) out r /\
      f_dict st' = f_dict st /\ same_static st st' /\ f_toRead st' = f_toRead st /\
      f_err st' = f_err st /\ (exists k' R', BIs data k' R' (f_rd st'))
  end.
Proof.
  intros H257 H286 [Hcl Hcd] HB Hk HW. cbv zeta.
  pose proof (BIs_range data Hd k R _ HB) as HR.
  assert (HR0 : (R <= nbits data)%nat) by lia.
  destruct (range_get lenRanges (litSym - 257)) as (rc & Erc & Enr & Hin); [rewrite lenRanges_len; lia|].
  pose proof lenRanges_ok as Hok. rewrite forallb_forall in Hok. specialize (Hok rc Hin).
  unfold len_range_ok in Hok. destruct rc as [base nb]. cbn [fst snd] in Hok.
  unfold cmd_part, spec_cmd. change Flate.Spec.lenRanges with lenRanges. rewrite Enr.
  unfold mbind at 1. rewrite (m_range_ok _ _ _ _ Erc). cbn [snd fst].
  unfold mbind at 1. rewrite m_bits_fast_eq.
  pose proof (bits_fast_sim data Hd k R (f_rd st) nb HB ltac:(lia)) as Hb.
  destruct (bits_fast (f_rd st) nb) as [[extra|] p1] eqn:Ebf1; cbn [fst snd].
  2:{ (* UEOF in the extra bits *)
    split; [left; reflexivity|]. split.
    - cbn [err_wrap]. rewrite run_bind.
      apply (fails_same EUEOF out (run (Flate.Spec.rbits nb) (sigma data R out))).
      + apply (run_rbits_eof data Hd); lia.
      + intros s' E. rewrite E. reflexivity.
    - fl_simpl. repeat split.
      destruct (HBF k R (f_rd st) nb p1 HB ltac:(lia) (or_intror Ebf1)) as (k' & Hk').
      exists k', R. exact Hk'. }
  destruct Hb as (Hfit & Hv & HB1 & Hbf1).
  rewrite run_bind, (run_rbits data Hd R out nb Hfit), <- Hv.
  unfold mbind at 1. unfold mupd at 1.
  set (st1 := set_cpyLen (set_rd st p1) (Z.of_N base + Z.of_N extra)%Z).
  unfold mbind at 1. unfold m_tree at 1.
  assert (Hd1 : dist_tree st1 = ROk dt) by (unfold st1, dist_tree in *; fl_simpl; exact Hcd).
  rewrite Hd1. unfold mbind at 1. rewrite m_symbol_fast_eq.
  assert (Hrd1 : f_rd st1 = p1) by reflexivity. rewrite Hrd1.
  set (R1 := (R + N.to_nat nb)%nat) in *.
  pose proof (proj2 HSd (k - nb) R1 p1 out HB1) as Hs. cbv zeta in Hs.
  assert (Hext : extra < 2 ^ nb) by (rewrite Hv; apply sval_lt).
  destruct (sym_fast dt p1) as [[distSym|e] p2] eqn:Esf; cbn [fst snd].
  2:{ (* the distance symbol fails *)
    destruct (HFd _ R1 p1 e p2 HB1 (or_intror Esf)) as (k' & Hk').
    destruct Hs as [[-> Hf]|[[-> Hf]|[Hx _]]]; [| |discriminate].
    - split; [left; reflexivity|]. split.
      + cbn [err_wrap]. rewrite run_bind. eapply fails_same; [exact Hf|].
        intros s' E. rewrite E. reflexivity.
      + unfold st1. fl_simpl. repeat split. exists k', R1. exact Hk'.
    - split; [right; right; reflexivity|]. split.
      + cbn [err_wrap]. rewrite run_bind. eapply fails_same; [exact Hf|].
        intros s' E. rewrite E. reflexivity.
      + unfold st1. fl_simpl. repeat split. exists k', R1. exact Hk'. }
  destruct Hs as (Hl1 & Hfit2 & Hml & Hrun & HB2 & Hbf2).
  rewrite run_bind, Hrun.
  set (l2 := lenfd distSym) in *. set (R2 := (R1 + N.to_nat l2)%nat) in *.
  change Flate.Spec.maxNumDistSyms with maxNumDistSyms.
  destruct (maxNumDistSyms <=? distSym) eqn:Ed.
  { (* invalid distance symbol *)
    replace (distSym <? maxNumDistSyms) with false by lia.
    split; [right; left; reflexivity|]. split.
    - cbn [assert_p bind run err_wrap]. eexists. split; [reflexivity|]. reflexivity.
    - unfold st1. fl_simpl. repeat split. eexists _, R2. exact HB2. }
  replace (distSym <? maxNumDistSyms) with true by lia.
  cbn [assert_p bind].
  unfold maxNumDistSyms in Ed.
  destruct (range_get distRanges distSym) as (rc2 & Erc2 & Enr2 & Hin2); [rewrite distRanges_len; lia|].
  pose proof distRanges_ok as Hok2. rewrite forallb_forall in Hok2. specialize (Hok2 rc2 Hin2).
  unfold dist_range_ok in Hok2. destruct rc2 as [dbase dnb]. cbn [fst snd] in Hok2.
  change Flate.Spec.distRanges with distRanges. rewrite Enr2.
  unfold mbind at 1. rewrite (m_range_ok _ _ _ _ Erc2). cbn [fst snd].
  unfold mbind at 1. rewrite m_bits_fast_eq.
  set (st2 := set_rd st1 p2).
  assert (Hrd2 : f_rd st2 = p2) by reflexivity. rewrite Hrd2.
  assert (Hk2 : N.max (k - nb) md - l2 <= ks).
  { specialize (Hml eq_refl). lia. }
  pose proof (bits_fast_sim data Hd _ R2 p2 dnb HB2 ltac:(lia)) as Hb2.
  destruct (bits_fast p2 dnb) as [[dextra|] p3] eqn:Ebf2; cbn [fst snd].
  2:{ destruct (HBF _ R2 p2 dnb p3 HB2 ltac:(lia) (or_intror Ebf2)) as (k' & Hk').
      split; [left; reflexivity|]. split.
      - cbn [err_wrap]. rewrite run_bind.
        apply (fails_same EUEOF out (run (Flate.Spec.rbits dnb) (sigma data R2 out))).
        + apply (run_rbits_eof data Hd); [|exact Hb2].
          pose proof (BIs_range data Hd _ R2 p2 HB2). lia.
        + intros s' E. rewrite E. reflexivity.
      - unfold st2, st1. fl_simpl. repeat split. exists k', R2. exact Hk'. }
  destruct Hb2 as (Hfit3 & Hv3 & HB3 & Hbf3).
  rewrite run_bind, (run_rbits data Hd R2 out dnb Hfit3), <- Hv3.
  assert (Hdext : dextra < 2 ^ dnb) by (rewrite Hv3; apply sval_lt).
  unfold mbind at 1. unfold mupd at 1.
  set (st3 := set_dist (set_rd st2 p3) (Z.of_N dbase + Z.of_N dextra)%Z).
  unfold mbind at 1. unfold mget at 1.
  assert (Hdict3 : f_dict st3 = f_dict st) by reflexivity.
  assert (Hdist3 : f_dist st3 = (Z.of_N dbase + Z.of_N dextra)%Z) by reflexivity.
  rewrite Hdict3, Hdist3, (w2_hist _ _ _ HW).
  rewrite (run_hist data Hd).
  change Flate.Spec.maxHistSize with 32768. unfold maxHistSize.
  set (R3 := (R2 + N.to_nat dnb)%nat) in *.
  destruct (Z.min 32768 (zlen out) <? Z.of_N dbase + Z.of_N dextra)%Z eqn:Eh.
  { (* distance beyond the history *)
    replace (dbase + dextra <=? N.min (N.of_nat (length out)) 32768) with false
      by (unfold zlen in Eh; lia).
    split; [right; left; reflexivity|]. split.
    - cbn [assert_p bind run err_wrap]. eexists. split; [reflexivity|]. reflexivity.
    - unfold st3, st2, st1. fl_simpl. repeat split. eexists _, R3. exact HB3. }
  replace (dbase + dextra <=? N.min (N.of_nat (length out)) 32768) with true
    by (unfold zlen in Eh; lia).
  cbn [assert_p bind].
  rewrite (run_copy data Hd R3 out (dbase + dextra) (base + extra) (Ret (inl tt)))
    by (unfold zlen in Eh; lia).
  cbn [run]. unfold ret.
  exists R3. split; [unfold R3, R2, R1; lia|]. split.
  - f_equal. f_equal. unfold st3, st2, st1. fl_simpl. f_equal; lia.
  - unfold st3, st2, st1. fl_simpl. unfold zlen in *.
    split; [lia|]. split; [lia|]. split.
    + eapply (BIs_weaken data Hd); [|exact HB3]. lia.
    + repeat split; congruence.
Qed.

(* ---- the outcome of one call of readBlock ------------------------------------------------------ *)
Inductive blk_out (st : flst) (R : nat) (out0 : list byte) (fl : Z) (rb : result unit) : res unit * flst -> Prop :=
| BO_lit st' R' out' :
    f_step st' = StBlock -> f_stepState st' = false -> f_err st' = f_err st -> same_static st st' ->
    p_buffered (f_rd st') = p_buffered (f_rd st) ->
    BIs data ks R' (f_rd st') -> WInv2 (f_dict st') out' (zlen out') ->
    f_toRead st' = zskipn fl out' -> f_toRead st' <> [] ->
    loops body tt (sigma data R' out') rb -> (R <= R')%nat -> prefix_of out0 out' ->
    blk_out st R out0 fl rb (ROk tt, st')
| BO_copy st' R' out' :
    f_step st' = StBlock -> f_stepState st' = true -> f_err st' = f_err st -> same_static st st' ->
    p_buffered (f_rd st') = p_buffered (f_rd st) ->
    BIs data ks R' (f_rd st') -> WInv2 (f_dict st') out' (zlen out') ->
    f_toRead st' = zskipn fl out' -> f_toRead st' <> [] ->
    (0 < f_cpyLen st' <= 258)%Z -> (0 < f_dist st' <= Z.min maxHistSize (zlen out'))%Z ->
    loops body tt (sigma data R' (lz_copy out' (f_dist st') (Z.to_nat (f_cpyLen st')))) rb ->
    (R <= R')%nat -> prefix_of out0 out' ->
    blk_out st R out0 fl rb (ROk tt, st')
| BO_eob st' R1 R' out' :
    f_step st' = StHeader -> f_stepState st' = false -> same_static st st' ->
    p_buffered (f_rd st') = p_buffered (f_rd st) ->
    rb = Done tt (sigma data R1 out') -> (R1 <= nbits data)%nat ->
    (if f_last st then R' = (R1 + (8 - R1 mod 8) mod 8)%nat /\ f_err st' = Some EEOF
     else R' = R1 /\ f_err st' = f_err st) ->
    BIs data 0 R' (f_rd st') -> WInv2 (f_dict st') out' fl -> f_toRead st' = f_toRead st ->
    (R < R1)%nat -> prefix_of out0 out' ->
    blk_out st R out0 fl rb (ROk tt, st')
| BO_fail st' e out' :
    (e = EUEOF \/ e = ECorrupted \/ e = EInvalid) -> same_static st st' ->
    WInv2 (f_dict st') out' fl -> f_toRead st' = f_toRead st -> f_err st' = f_err st ->
    fails (err_wrap e) out' rb -> (exists k' R', BIs data k' R' (f_rd st')) -> prefix_of out0 out' ->
    blk_out st R out0 fl rb (RThrow e, st')
| BO_dev st' out' :
    dv = true -> same_static st st' ->
    WInv2 (f_dict st') out' fl -> f_toRead st' = f_toRead st -> f_err st' = f_err st ->
    fails_after out' rb -> (exists k' R', BIs data k' R' (f_rd st')) -> prefix_of out0 out' ->
    blk_out st R out0 fl rb (RThrow EUEOF, st').

Lemma blk_out_static st0 st R0 R out0 out fl rb x : same_static st0 st -> f_err st = f_err st0 ->
  f_toRead st = f_toRead st0 -> f_last st = f_last st0 ->
  p_buffered (f_rd st) = p_buffered (f_rd st0) -> (R0 <= R)%nat -> prefix_of out0 out ->
  blk_out st R out fl rb x -> blk_out st0 R0 out0 fl rb x.
Proof.
  intros HS He Ht Hl Hb HR Hpre H.
  destruct H as [st' R' out' A1 A2 A3 A4 A5 A6 A7 A8 A8' A9 A9' Ap
                |st' R' out' A1 A2 A3 A4 A5 A6 A7 A8 A8' A9 A10 A11 A11' Ap
                |st' R1 R' out' A1 A2 A3 A4 A5 A6 A7 A8 A9 A10 A10' Ap
                |st' e out' A1 A2 A3 A4 A5 A6 A7 Ap
                |st' out' A1 A2 A3 A4 A5 A6 A7 Ap];
    pose proof (prefix_of_trans _ _ _ Hpre Ap) as Hp'.
  - eapply BO_lit; eauto; try congruence; try lia. eapply same_static_trans; eassumption.
  - eapply BO_copy; eauto; try congruence; try lia. eapply same_static_trans; eassumption.
  - eapply BO_eob; eauto; try congruence; try lia.
    + eapply same_static_trans; eassumption.
    + rewrite <- Hl. destruct (f_last st); [exact A7|]. destruct A7 as [B1 B2]. split; congruence.
  - eapply BO_fail; eauto; try congruence. eapply same_static_trans; eassumption.
  - eapply BO_dev; eauto; try congruence. eapply same_static_trans; eassumption.
Qed.

Lemma lz_copy_prefix out d n : prefix_of out (lz_copy out d n).
Proof. destruct (lz_copy_spec n out d) as (e & E & _). exists e. exact E. Qed.

(* with fewer than ml bits left the block cannot end: the end-of-block code has ml bits *)
Lemma short_block_fails R out rb : dv = true -> lenfl 256 = ml ->
  (R <= nbits data)%nat -> (nbits data < R + N.to_nat ml)%nat ->
  loops body tt (sigma data R out) rb -> fails_after out rb.
Proof.
  intros Hdv H256 HR Hshort HL.
  remember (sigma data R out) as s eqn:Es. remember tt as u eqn:Eu.
  revert R out HR Hshort Es.
  induction HL as [st s e s' E|st s x s' E|st s st1 s1 r E H IH]; intros R out HR Hshort ->; subst st.
  - destruct (run_sigma_fail data _ R out e s' HR E) as (e' & s'' & E' & Hp).
    rewrite E in E'. inversion E'; subst. exists e', s''. split; [reflexivity | exact Hp].
  - exfalso. rewrite block_body_unfold, run_bind in E.
    destruct (run (Flate.Spec.sym_or_corrupt tl) (sigma data R out)) as [litSym s1|e s1] eqn:Es; [|discriminate].
    destruct (HTl R out litSym s1 HR Es) as (-> & Hfit & Hpos).
    destruct (litSym <? 256) eqn:E1; [cbn [run] in E; discriminate|].
    destruct (litSym =? 256) eqn:E2.
    + apply N.eqb_eq in E2. subst litSym. rewrite H256 in Hfit. lia.
    + destruct (litSym <? Flate.Spec.maxNumLitSyms); [|cbn [run] in E; discriminate].
      (* a command never ends the block *)
      assert (P : post (fun r : unit + unit => r = inl tt) (spec_cmd litSym)).
      { unfold spec_cmd. destruct (Flate.Spec.nth_range Flate.Spec.lenRanges (litSym - 257)) as [base nb].
        apply post_bind_any. intros extra. apply post_bind_any. intros distSym.
        apply post_bind_any. intros _.
        destruct (Flate.Spec.nth_range Flate.Spec.distRanges distSym) as [dbase dnb].
        apply post_bind_any. intros dextra. cbv beta zeta. unfold post. intros s0 a s0' Hr. cbn [run] in Hr.
        rewrite run_bind in Hr. destruct (run (assert_p _ _) s0) as [? s2|? s2]; [|discriminate].
        cbn [run] in Hr. destruct (_ && _); [|discriminate]. cbn [run] in Hr. inversion Hr. reflexivity. }
      pose proof (post_elim _ _ _ _ _ P E) as C. discriminate.
  - destruct (run_sigma_done data _ R out _ s1 HR E) as (R1 & out1 & -> & H1 & H2 & H3).
    destruct st1.
    destruct (IH eq_refl R1 out1 H2 ltac:(lia) eq_refl) as (e' & s'' & E' & Hp).
    exists e', s''. split; [exact E'|]. eapply prefix_of_trans; eassumption.
Qed.


(* ---- one iteration of the loop, as equations ----------------------------------------------------- *)
Lemma rbl_copy_eq f st :
  read_block_loop (S f) true st =
  match m_copy_combo (f_dist st) (f_cpyLen st) st with
  | (ROk cnt, st1) =>
      let st2 := set_cpyLen st1 (f_cpyLen st1 - cnt)%Z in
      if (0 <? f_cpyLen st2)%Z
      then (m_flush_to_read ;;; mupd (fun st => set_stepState (set_step st StBlock) true)) st2
      else read_block_loop f false st2
  | (RThrow e, st1) => (RThrow e, st1)
  end.
Proof.
  cbn [read_block_loop]. unfold mbind at 1. unfold mget at 1.
  rewrite <- mbind_assoc. fold (m_copy_combo (f_dist st) (f_cpyLen st)).
  unfold mbind at 1.
  destruct (m_copy_combo (f_dist st) (f_cpyLen st) st) as [[cnt|e] st1]; [|reflexivity].
  cbv zeta. unfold mbind at 1. unfold mupd at 1. unfold mbind at 1. unfold mget at 1.
  destruct (0 <? f_cpyLen (set_cpyLen st1 (f_cpyLen st1 - cnt)))%Z; reflexivity.
Qed.

Lemma rbl_lit_eq f st :
  read_block_loop (S f) false st =
  if (avail_size (f_dict st) =? 0)%Z
  then (m_flush_to_read ;;; mupd (fun st => set_stepState (set_step st StBlock) false)) st
  else match lit_tree st with
       | RThrow e => (RThrow e, st)
       | ROk ltr =>
         match m_symbol_fast ltr st with
         | (RThrow e, st1) => (RThrow e, st1)
         | (ROk litSym, st1) =>
           if litSym <? endBlockSym then
             match m_write_byte (litSym mod 256) st1 with
             | (ROk _, st2) => read_block_loop f false st2
             | (RThrow e, st2) => (RThrow e, st2)
             end
           else if litSym =? endBlockSym then
             (finish_block ;;; mupd (fun st => set_stepState st false)) st1
           else if litSym <? maxNumLitSyms then
             match cmd_part litSym st1 with
             | (ROk _, st2) => read_block_loop f true st2
             | (RThrow e, st2) => (RThrow e, st2)
             end
           else (RThrow ECorrupted, st1)
         end
       end.
Proof.
  cbn [read_block_loop]. unfold mbind at 1. unfold mget at 1.
  destruct (avail_size (f_dict st) =? 0)%Z; [reflexivity|].
  unfold mbind at 1. unfold m_tree at 1.
  destruct (lit_tree st) as [ltr|e]; [|reflexivity].
  unfold mbind at 1.
  destruct (m_symbol_fast ltr st) as [[litSym|e] st1]; [|reflexivity].
  destruct (litSym <? endBlockSym); [reflexivity|].
  destruct (litSym =? endBlockSym); [reflexivity|].
  destruct (litSym <? maxNumLitSyms); [|reflexivity].
  change (match cmd_part litSym st1 with
          | (ROk _, st2) => read_block_loop f true st2
          | (RThrow e, st2) => (RThrow e, st2)
          end) with (mbind (cmd_part litSym) (fun _ => read_block_loop f true) st1).
  unfold cmd_part.
  rewrite mbind_assoc. apply mbind_cong. intros rc s1.
  rewrite mbind_assoc. apply mbind_cong. intros extra s2.
  rewrite mbind_assoc. apply mbind_cong. intros u3 s3.
  rewrite mbind_assoc. apply mbind_cong. intros dtr s4.
  rewrite mbind_assoc. apply mbind_cong. intros distSym s5.
  destruct (maxNumDistSyms <=? distSym); [reflexivity|].
  rewrite mbind_assoc. apply mbind_cong. intros rc2 s6.
  rewrite mbind_assoc. apply mbind_cong. intros extra2 s7.
  rewrite mbind_assoc. apply mbind_cong. intros u8 s8.
  rewrite mbind_assoc. apply mbind_cong. intros st9 s9.
  destruct (hist_size (f_dict st9) <? f_dist st9)%Z; reflexivity.
Qed.

Definition need (copying : bool) (a : Z) : nat :=
  if copying then Nat.max 1 (2 * Z.to_nat a) else (2 * Z.to_nat a + 1)%nat.

Lemma run_body_fail R out (r : result N) e s' :
  run (Flate.Spec.sym_or_corrupt tl) (sigma data R out) = Fail e s' ->
  run (body tt) (sigma data R out) = Fail e s'.
Proof. intros E. rewrite block_body_unfold, run_bind, E. reflexivity. Qed.

Theorem block_loop_sim : forall fuel copying st R out fl rb,
  cfg st -> BIs data ks R (f_rd st) -> WInv2 (f_dict st) out fl ->
  (need copying (avail_size (f_dict st)) <= fuel)%nat ->
  (if copying
   then (0 < f_cpyLen st <= 258)%Z /\ (0 < f_dist st <= Z.min maxHistSize (zlen out))%Z /\
        loops body tt (sigma data R (lz_copy out (f_dist st) (Z.to_nat (f_cpyLen st)))) rb
   else loops body tt (sigma data R out) rb) ->
  blk_out st R out fl rb (read_block_loop fuel copying st).
Proof.
  induction fuel as [|f IH]; intros copying st R out fl rb Hcfg HB HW Hfuel Hsp.
  { exfalso. unfold need in Hfuel. destruct copying; lia. }
  pose proof (w2_avail _ _ _ HW) as Hav.
  pose proof (BIs_range data Hd ks R _ HB) as HRr.
  assert (HR0 : (R <= nbits data)%nat) by lia.
  destruct copying.
  - (* label copyDistance *)
    destruct Hsp as (Hcl & Hdi & HL).
    rewrite rbl_copy_eq.
    assert (Hdh : (0 < f_dist st <= hist_size (f_dict st))%Z) by (rewrite (w2_hist _ _ _ HW); exact Hdi).
    destruct (m_copy_combo_ok st out fl (f_dist st) (f_cpyLen st) HW Hdh ltac:(lia))
      as (dc' & Ec & HW' & Hav').
    cbv zeta in Ec. rewrite Ec.
    set (cnt := Z.min (f_cpyLen st) (avail_size (f_dict st))) in *.
    set (out1 := lz_copy out (f_dist st) (Z.to_nat cnt)) in *.
    cbv zeta. fl_simpl.
    destruct (0 <? f_cpyLen st - cnt)%Z eqn:Erem.
    + (* the window is full: flush and return to Read *)
      set (st2 := set_cpyLen (set_dict st dc') (f_cpyLen st - cnt)%Z).
      assert (HW2 : WInv2 (f_dict st2) out1 fl) by exact HW'.
      destruct (m_flush_to_read_ok st2 out1 fl HW2) as (dc2 & Ef & HWf & Havf).
      unfold mbind at 1. rewrite Ef. unfold mupd.
      eapply (BO_copy _ _ _ _ _ _ R out1); unfold st2; fl_simpl; try reflexivity.
      * repeat split.
      * exact HB.
      * exact HWf.
      * apply (w2_pending dc' out1 fl HW'). lia.
      * lia.
      * unfold out1. rewrite lz_copy_len. lia.
      * unfold out1. rewrite (lz_copy_add out (f_dist st) (Z.to_nat cnt) _ _ eq_refl).
        replace (Z.to_nat cnt + Z.to_nat (f_cpyLen st - cnt))%nat with (Z.to_nat (f_cpyLen st)) by lia.
        exact HL.
      * apply lz_copy_prefix.
    + (* the copy is complete: on to the next literal *)
      assert (Hcnt : cnt = f_cpyLen st) by lia.
      set (st2 := set_cpyLen (set_dict st dc') (f_cpyLen st - cnt)%Z).
      assert (HS : same_static st st2) by (unfold st2; repeat split).
      eapply (blk_out_static st st2 R R out out1); try reflexivity; [exact HS|apply lz_copy_prefix|].
      apply (IH false st2 R out1 fl rb).
      * eapply cfg_static; eassumption.
      * exact HB.
      * exact HW'.
      * unfold need in *. unfold st2. fl_simpl. rewrite Hav'. lia.
      * unfold out1. rewrite Hcnt. exact HL.
  - (* label readLiteral *)
    rewrite rbl_lit_eq.
    destruct (avail_size (f_dict st) =? 0)%Z eqn:Ea.
    + destruct (m_flush_to_read_ok st out fl HW) as (dc2 & Ef & HWf & Havf).
      unfold mbind at 1. rewrite Ef. unfold mupd.
      eapply (BO_lit _ _ _ _ _ _ R out); fl_simpl; try reflexivity.
      * repeat split.
      * exact HB.
      * exact HWf.
      * apply (w2_pending _ _ _ HW). lia.
      * exact Hsp.
      * apply prefix_of_refl.
    + destruct Hcfg as [Hcl Hcd]. rewrite Hcl. rewrite m_symbol_fast_eq.
      pose proof (proj2 HSl ks R (f_rd st) out HB) as Hs. cbv zeta in Hs.
      destruct (sym_fast lt (f_rd st)) as [[litSym|e] p1] eqn:Esl; cbn [fst snd].
      2:{ (* the literal/length symbol fails *)
        destruct (HFl ks R (f_rd st) e p1 HB (or_intror Esl)) as (k' & Hk').
        assert (HBf : exists k' R', BIs data k' R' p1) by (exists k', R; exact Hk').
        set (st1 := set_rd st p1).
        destruct Hs as [[-> Hf]|[[-> Hf]|(Hdv & -> & Hshort)]].
        - destruct Hf as (s' & Ef & Ho).
          apply (BO_fail _ _ _ _ _ st1 EUEOF out); try (unfold st1; fl_simpl; reflexivity).
          + left; reflexivity.
          + repeat split.
          + exact HW.
          + cbn [err_wrap]. exists s'. split; [|exact Ho].
            apply (loops_inv_fail _ _ _ _ _ _ Hsp). apply (run_body_fail R out (Fail EUEOF s')). exact Ef.
          + exact HBf.
          + apply prefix_of_refl.
        - destruct Hf as (s' & Ef & Ho).
          apply (BO_fail _ _ _ _ _ st1 EInvalid out); try (unfold st1; fl_simpl; reflexivity).
          + right; right; reflexivity.
          + repeat split.
          + exact HW.
          + cbn [err_wrap]. exists s'. split; [|exact Ho].
            apply (loops_inv_fail _ _ _ _ _ _ Hsp). apply (run_body_fail R out (Fail ECorrupted s')). exact Ef.
          + exact HBf.
          + apply prefix_of_refl.
        - apply (BO_dev _ _ _ _ _ st1 out); try (unfold st1; fl_simpl; reflexivity).
          + exact Hdv.
          + repeat split.
          + exact HW.
          + destruct Hks as [[_ Hx]|[_ H256]]; [congruence|].
            apply (short_block_fails R out rb Hdv H256 HR0 Hshort Hsp).
          + exact HBf.
          + apply prefix_of_refl. }
      destruct Hs as (Hl1 & Hfit & Hml & Hrun & HB1 & Hbf1).
      set (l := lenfl litSym) in *. set (R1 := (R + N.to_nat l)%nat) in *.
      set (st1 := set_rd st p1).
      assert (HS1 : same_static st st1) by (unfold st1; repeat split).
      assert (Hk1 : N.max ks ml - l <= ks) by (apply slack_lit; [lia | exact Hml | exact Hl1]).
      assert (Hbody : run (body tt) (sigma data R out) =
                      run ((fun litSym => if litSym <? 256 then Put litSym (Ret (inl tt))
                             else if litSym =? 256 then Ret (inr tt)
                             else if litSym <? Flate.Spec.maxNumLitSyms then spec_cmd litSym
                             else Throw ECorrupted) litSym) (sigma data R1 out)).
      { rewrite block_body_unfold, run_bind, Hrun. reflexivity. }
      cbv beta in Hbody.
      unfold endBlockSym, maxNumLitSyms. change Flate.Spec.maxNumLitSyms with 286 in Hbody.
      destruct (litSym <? 256) eqn:E1.
      { (* a literal *)
        rewrite (run_put data Hd) in Hbody. cbn [run] in Hbody.
        assert (Ha1 : (0 < avail_size (f_dict st1))%Z) by (unfold st1; fl_simpl; lia).
        assert (HW1 : WInv2 (f_dict st1) out fl) by exact HW.
        destruct (m_write_byte_ok st1 out fl (litSym mod 256) HW1 Ha1) as (dc' & Ew & HW' & Hav').
        rewrite Ew. rewrite N.mod_small in HW' by lia.
        set (st2 := set_dict st1 dc').
        eapply (blk_out_static st st2 R R1 out (out ++ [litSym])); try reflexivity.
        - unfold st2, st1. repeat split.
        - exact Hbf1.
        - unfold R1. lia.
        - apply prefix_of_app.
        - apply (IH false st2 R1 (out ++ [litSym]) fl rb).
          + eapply cfg_static; [|split; eassumption]. unfold st2, st1. repeat split.
          + eapply (BIs_weaken data Hd); [exact Hk1 | exact HB1].
          + exact HW'.
          + unfold need in *. unfold st2. fl_simpl. rewrite Hav'. unfold st1. fl_simpl. lia.
          + apply (loops_inv_step _ _ _ _ _ _ Hsp Hbody). }
      destruct (litSym =? 256) eqn:E2.
      { (* end of block *)
        apply N.eqb_eq in E2. cbn [run] in Hbody.
        pose proof (loops_inv_done _ _ _ _ _ _ Hsp Hbody) as Hrb.
        assert (HB0 : BIs data 0 R1 p1).
        { eapply (BIs_weaken data Hd); [|exact HB1]. unfold l. rewrite E2.
          destruct Hks as [[-> Hdv]|[-> H256]].
          - specialize (Hml Hdv). unfold l in Hml. rewrite E2 in Hml. lia.
          - rewrite H256. lia. }
        unfold finish_block. unfold mbind at 1. unfold mbind at 1. unfold mget at 1.
        unfold mbind at 1.
        assert (Hlast1 : f_last st1 = f_last st) by reflexivity. rewrite Hlast1.
        destruct (f_last st) eqn:Elast.
        - unfold mbind at 1. rewrite m_read_pads_eq.
          assert (Hrd1 : f_rd st1 = p1) by reflexivity. rewrite Hrd1.
          destruct (read_pads_sim data Hd 0 R1 p1 HB0) as (Hp1 & _ & HBp & Hbfp).
          unfold mupd.
          eapply (BO_eob _ _ _ _ _ _ R1 _ out); fl_simpl; try reflexivity.
          + repeat split.
          + rewrite Hbfp. exact Hbf1.
          + exact Hrb.
          + lia.
          + rewrite Elast. split; reflexivity.
          + eapply (BIs_weaken data Hd); [|exact HBp]. lia.
          + exact HW.
          + unfold R1. lia.
          + apply prefix_of_refl.
        - unfold ret, mupd.
          eapply (BO_eob _ _ _ _ _ _ R1 R1 out); fl_simpl; try reflexivity.
          + repeat split.
          + exact Hbf1.
          + exact Hrb.
          + lia.
          + rewrite Elast. split; reflexivity.
          + exact HB0.
          + exact HW.
          + unfold R1. lia.
          + apply prefix_of_refl. }
      destruct (litSym <? 286) eqn:E3.
      { (* a <length, distance> command *)
        assert (Hc1 : cfg st1) by (eapply cfg_static; [exact HS1 | split; assumption]).
        pose proof (cmd_part_sim litSym st1 (N.max ks ml - l) R1 out fl ltac:(lia) ltac:(lia) Hc1 HB1 Hk1 HW)
          as Hc. cbv zeta in Hc.
        destruct (cmd_part litSym st1) as [[u|e] st2].
        - destruct Hc as (R2 & HR12 & Hrun2 & Hcl2 & Hdi2 & HB2 & Hdict2 & HS2 & Htr2 & Her2 & Hst2 & Hss2 & Hbf2).
          rewrite Hrun2 in Hbody.
          eapply (blk_out_static st st2 R R2 out out).
          + exact (same_static_trans _ _ _ HS1 HS2).
          + rewrite Her2. reflexivity.
          + rewrite Htr2. reflexivity.
          + destruct HS2 as (_&_&H3&_). rewrite H3. reflexivity.
          + rewrite Hbf2. exact Hbf1.
          + unfold R1 in HR12. lia.
          + apply prefix_of_refl.
          + apply (IH true st2 R2 out fl rb).
            * eapply cfg_static; eassumption.
            * exact HB2.
            * rewrite Hdict2. exact HW.
            * unfold need in *. rewrite Hdict2. unfold st1. fl_simpl. lia.
            * split; [lia|]. split; [exact Hdi2|].
              apply (loops_inv_step _ _ _ _ _ _ Hsp Hbody).
        - destruct Hc as (He & Hf & Hdict2 & HS2 & Htr2 & Her2 & HBf2).
          destruct Hf as (s' & Ef & Ho). rewrite Ef in Hbody.
          apply (BO_fail _ _ _ _ _ st2 e out).
          + exact He.
          + exact (same_static_trans _ _ _ HS1 HS2).
          + rewrite Hdict2. exact HW.
          + rewrite Htr2. reflexivity.
          + rewrite Her2. reflexivity.
          + exists s'. split; [|exact Ho]. apply (loops_inv_fail _ _ _ _ _ _ Hsp Hbody).
          + exact HBf2.
          + apply prefix_of_refl. }
      (* invalid literal/length symbol *)
      cbn [run] in Hbody.
      apply (BO_fail _ _ _ _ _ st1 ECorrupted out); try (unfold st1; fl_simpl; reflexivity).
      * right; left; reflexivity.
      * exact HS1.
      * exact HW.
      * cbn [err_wrap]. eexists. split; [apply (loops_inv_fail _ _ _ _ _ _ Hsp Hbody)|]. reflexivity.
      * eexists _, R1. exact HB1.
      * apply prefix_of_refl.
Qed.

End Block.
