(* Two flate Readers that differ only in RECYCLED STORAGE - the stale contents of the window
   buffer beyond what has been written since Reset, the contents of the three Decoder objects
   (clenTree, pd1, pd2) before their next Init - are indistinguishable: every call returns the
   same results and leaves them related. This file: the relation, and its preservation by every
   function of Flate/Impl.v up to one call of Read. *)
From V Require Import Base.Prelude Bzip2.Common Prefix.Code Prefix.GenPrefixesThms Prefix.ReaderImpl
  Prefix.DecTable Prefix.DecTableSpec Prefix.DecTableThms Prefix.DecCanonThms Prefix.DecGenLink
  Window.Dict Window.DictThms.
From V Require Flate.Spec Flate.Canon.
From V Require Import Flate.Impl Flate.ImplLifeWin.
From Coq Require Import ZifyBool ZifyN ZifyNat.

Local Open Scope N_scope.
Local Open Scope fl_scope.

(* ---- decoders with the same live entries ------------------------------------------------------- *)
Definition arr_eq (a b : arr) : Prop := a_len a = a_len b /\ forall i, arr_get a i = arr_get b i.

Record dec_eq (d d' : dec) : Prop := mkDecEq {
  dq_chunks : arr_eq (d_chunks d) (d_chunks d');
  dq_flat : arr_eq (d_flat d) (d_flat d');
  dq_nlinks : d_nlinks d = d_nlinks d';
  dq_linkLen : d_linkLen d = d_linkLen d';
  dq_chunkMask : d_chunkMask d = d_chunkMask d';
  dq_linkMask : d_linkMask d = d_linkMask d';
  dq_chunkBits : d_chunkBits d = d_chunkBits d';
  dq_minBits : d_minBits d = d_minBits d';
  dq_numSyms : d_numSyms d = d_numSyms d'
}.

Lemma arr_eq_refl a : arr_eq a a.
Proof. split; reflexivity. Qed.

Lemma dec_eq_refl d : dec_eq d d.
Proof. constructor; try reflexivity; apply arr_eq_refl. Qed.

Lemma arr_get_len a b : (forall i, arr_get a i = arr_get b i) -> a_len a = a_len b.
Proof.
  intros H. unfold arr_get in H.
  destruct (N.lt_trichotomy (a_len a) (a_len b)) as [Hlt|[E|Hgt]]; [exfalso | exact E | exfalso].
  - specialize (H (a_len a)). rewrite N.ltb_irrefl in H.
    replace (a_len a <? a_len b) with true in H by (symmetry; apply N.ltb_lt; exact Hlt). discriminate.
  - specialize (H (a_len b)). rewrite N.ltb_irrefl in H.
    replace (a_len b <? a_len a) with true in H by (symmetry; apply N.ltb_lt; exact Hgt). discriminate.
Qed.

Lemma dec_lookup_eq d d' b : dec_eq d d' -> dec_lookup d b = dec_lookup d' b.
Proof.
  intros [[_ Hc] [_ Hf] E1 E2 E3 E4 E5 E6 E7]. unfold dec_lookup.
  rewrite <- E1, <- E2, <- E3, <- E4, <- E5, <- Hc.
  destruct (arr_get (d_chunks d) _) as [chunk|]; [|reflexivity].
  destruct (d_chunkBits d <? N.land chunk countMask); [|reflexivity].
  destruct (N.shiftr chunk countBits <? d_nlinks d); [|reflexivity].
  destruct (_ <? d_linkLen d); [|reflexivity].
  rewrite <- Hf. reflexivity.
Qed.

Lemma read_symbol_loop_eq d d' : dec_eq d d' -> forall fuel p nb,
  read_symbol_loop fuel d p nb = read_symbol_loop fuel d' p nb.
Proof.
  intros HD. induction fuel as [|f IH]; intros p nb; cbn [read_symbol_loop]; [reflexivity|].
  destruct (pull_bits p nb) as [e p1]. destruct e; [reflexivity|].
  rewrite <- (dec_lookup_eq d d' _ HD).
  destruct (dec_lookup d (p_bufBits p1)) as [[sym nb']|]; [|reflexivity].
  destruct (nb' <=? p_numBits p1); [reflexivity | apply IH].
Qed.

Lemma dt_read_symbol_eq d d' p : dec_eq d d' -> dt_read_symbol d p = dt_read_symbol d' p.
Proof.
  intros HD. unfold dt_read_symbol. pose proof HD as [[El _] _ _ _ _ _ _ E6 _].
  rewrite <- El, <- E6. destruct (a_len (d_chunks d) =? 0); [reflexivity|].
  apply read_symbol_loop_eq. exact HD.
Qed.

Lemma try_read_symbol_eq d d' p : dec_eq d d' -> try_read_symbol d p = try_read_symbol d' p.
Proof.
  intros [[El Hc] _ _ _ E3 _ E5 E6 _]. unfold try_read_symbol.
  rewrite <- El, <- E3, <- E5, <- E6, <- Hc. reflexivity.
Qed.

Lemma set_min_bits_eq d d' m : dec_eq d d' -> dec_eq (set_min_bits d m) (set_min_bits d' m).
Proof. intros [H1 H2 E1 E2 E3 E4 E5 E6 E7]. constructor; cbn; try assumption; reflexivity. Qed.

(* ---- Decoder.Init on GeneratePrefixes' output does not depend on what the storage held ---------- *)
Definition ires_rel {A B} (R : A -> B -> Prop) (r1 : ires A) (r2 : ires B) : Prop :=
  match r1, r2 with
  | IOk a, IOk b => R a b
  | IPanic, IPanic => True
  | IOutOfModel, IOutOfModel => True
  | _, _ => False
  end.

Lemma gen_prefixes_dec_valid lens out L :
  (2 <= length lens)%nat -> gen_prefixes lens = GPOk out -> Flate.Spec.max_len lens <= L ->
  dec_valid L out /\ map (fun e => (c_sym e, c_len e)) out = lens.
Proof.
  intros H2 E HL.
  pose proof (gen_prefixes_valid lens out H2 E) as HVC.
  pose proof (gen_prefixes_same_lens lens out H2 E) as Elens.
  assert (Hp : Flate.Canon.lens_pos lens).
  { intros s l Hin. rewrite <- Elens in Hin. apply in_map_iff in Hin.
    destruct Hin as ([[s' l'] v'] & Eq & Hin). cbn [fst] in Eq. inversion Eq; subst.
    apply (vc_len_pos out HVC _ Hin). }
  assert (Hc : Flate.Spec.complete lens = true) by (rewrite <- Elens; apply (vc_kraft out HVC)).
  destruct (of_canonical_valid lens out L Hp Hc H2 HL) as [HV _].
  - rewrite <- Elens. apply (vc_canonical out HVC).
  - intros e He. apply (vc_val_lt out HVC e He).
  - split; [exact HV|]. rewrite <- Elens. apply map_ext. intros [[s l] v]. reflexivity.
Qed.

Lemma dec_init_eq lens codes oldC oldL oldC' oldL' :
  gen_prefixes lens = GPOk codes -> length lens <> 1%nat ->
  ires_rel dec_eq (dec_init oldC oldL codes) (dec_init oldC' oldL' codes).
Proof.
  intros E H1.
  destruct lens as [|x [|y r]]; [| exfalso; apply H1; reflexivity |].
  - rewrite gen_prefixes_nil in E. inversion E; subst codes. cbn [dec_init ires_rel]. apply dec_eq_refl.
  - set (lens := x :: y :: r) in *.
    assert (H2 : (2 <= length lens)%nat) by (unfold lens; cbn [length]; lia).
    pose proof (gen_prefixes_same_lens lens codes H2 E) as Elens.
    assert (Hlc : (2 <= length codes)%nat).
    { rewrite <- Elens, map_length in H2. exact H2. }
    destruct (N.le_gt_cases (Flate.Spec.max_len lens) 31) as [Hle|Hgt].
    + destruct (gen_prefixes_dec_valid lens codes 31 H2 E Hle) as [HV _].
      destruct (dec_init_independent 31 codes oldC oldL oldC' oldL' ltac:(lia) HV)
        as (d & d' & Ed & Ed' & E3 & E4 & E5 & E6 & E7 & E1 & E2 & Hc & Hf).
      rewrite Ed, Ed'. cbn [ires_rel].
      constructor; try assumption; split; try assumption; apply arr_get_len; assumption.
    + (* a code longer than 31 bits: outside the model, whatever the storage held *)
      assert (Hmb : 31 < max_bits codes).
      { assert (Hex : exists s l, In (s, l) lens /\ 31 < l).
        { clear - Hgt. induction lens as [|[s l] t IH]; [cbn in Hgt; lia|].
          rewrite Flate.Canon.max_len_cons in Hgt.
          destruct (N.lt_ge_cases 31 l) as [Hl|Hl].
          - exists s, l. split; [left; reflexivity | exact Hl].
          - destruct IH as (s' & l' & Hin & Hl'); [lia|]. exists s', l'. split; [right; exact Hin | exact Hl']. }
        destruct Hex as (s & l & Hin & Hl). rewrite <- Elens in Hin. apply in_map_iff in Hin.
        destruct Hin as (c & Ec & Hc). pose proof (max_bits_ge codes c Hc) as Hge.
        destruct c as [[cs cl] cv]. cbn [fst] in Ec. inversion Ec; subst. unfold c_len in Hge. cbn [fst snd] in Hge. lia. }
      rewrite !dec_init_multi_eq by exact Hlc. unfold dec_init_multi.
      replace (31 <? max_bits codes) with true by (symmetry; apply N.ltb_lt; exact Hmb).
      exact I.
Qed.

Lemma slot_init_eq lens codes sl1 sl2 :
  gen_prefixes lens = GPOk codes -> length lens <> 1%nat ->
  ires_rel (fun a b => dec_eq (ds_dec a) (ds_dec b)) (slot_init sl1 codes) (slot_init sl2 codes).
Proof.
  intros E H1. unfold slot_init.
  pose proof (dec_init_eq lens codes (ds_cmem sl1) (ds_lmem sl1) (ds_cmem sl2) (ds_lmem sl2) E H1) as H.
  destruct (dec_init (ds_cmem sl1) (ds_lmem sl1) codes) as [d1| |];
    destruct (dec_init (ds_cmem sl2) (ds_lmem sl2) codes) as [d2| |]; cbn [ires_rel] in *;
    try contradiction; try exact I.
  exact H.
Qed.

Lemma handle_degenerate_len codes m : length (handle_degenerate codes m) <> 1%nat.
Proof. destruct codes as [|x [|y r]]; cbn [handle_degenerate length]; lia. Qed.

Ltac fl_simpl' :=
  cbn [f_inOff f_outOff f_rd f_clen f_toRead f_dist f_blkLen f_cpyLen f_last f_err f_step
       f_stepState f_dict f_trees f_pd1 f_pd2
       set_rd set_clen set_toRead set_dist set_blkLen set_cpyLen set_last set_err set_step
       set_stepState set_dict set_trees set_pd1 set_pd2 set_inOff set_outOff] in *.

(* W0 of two states built from related ones by the same field updates *)
Ltac w0_solve HW :=
  let H1 := fresh in let H2 := fresh in let H3 := fresh in let H4 := fresh in let H5 := fresh in
  let H6 := fresh in let H7 := fresh in let H8 := fresh in let H9 := fresh in let H10 := fresh in
  let H11 := fresh in let H12 := fresh in let H13 := fresh in
  pose proof HW as [H1 H2 H3 H4 H5 H6 H7 H8 H9 H10 H11 H12 H13];
  constructor; fl_simpl'; try assumption; try reflexivity; try congruence.

Ltac frame_solve := split; [reflexivity|]; split; [reflexivity | fl_simpl'; lia].
Ltac slots_solve := repeat split; reflexivity.

(* ---- the relation on Reader states ------------------------------------------------------------------ *)
Section Sim.
Variable CapP : Z -> Prop.
Hypothesis CapP_grow : forall c, CapP c -> (0 <= c < maxHistSize)%Z -> CapP (Z.min maxHistSize (c * 4)).


(* everything but the recycled storage is equal; the windows are related *)
Record W0 (s1 s2 : flst) : Prop := mkW0 {
  w_inOff : f_inOff s1 = f_inOff s2;
  w_outOff : f_outOff s1 = f_outOff s2;
  w_rd : f_rd s1 = f_rd s2;
  w_toRead : f_toRead s1 = f_toRead s2;
  w_dist : f_dist s1 = f_dist s2;
  w_blkLen : f_blkLen s1 = f_blkLen s2;
  w_cpyLen : f_cpyLen s1 = f_cpyLen s2;
  w_last : f_last s1 = f_last s2;
  w_err : f_err s1 = f_err s2;
  w_step : f_step s1 = f_step s2;
  w_stepState : f_stepState s1 = f_stepState s2;
  w_trees : f_trees s1 = f_trees s2;
  w_dict : dict_eq CapP (f_dict s1) (f_dict s2)
}.

Definition srel := flst -> flst -> Prop.

(* what a step that is not inside readBlock leaves alone *)
Definition frameA (s t : flst) : Prop :=
  f_stepState t = f_stepState s /\ f_dist t = f_dist s /\
  (hist_size (f_dict s) <= hist_size (f_dict t))%Z.

Definition slots_same (s t : flst) : Prop :=
  f_trees t = f_trees s /\ f_clen t = f_clen s /\ f_pd1 t = f_pd1 s /\ f_pd2 t = f_pd2 s.

(* a relation that only looks at zr.litTree/distTree and the three Decoder objects *)
Definition slot_only (Q : srel) : Prop :=
  forall s1 s2 t1 t2, slots_same s1 t1 -> slots_same s2 t2 -> Q s1 s2 -> Q t1 t2.

Lemma frameA_refl s : frameA s s.
Proof. split; [reflexivity|]. split; [reflexivity | lia]. Qed.

Lemma frameA_trans a b c : frameA a b -> frameA b c -> frameA a c.
Proof. intros (A1 & A2 & A3) (B1 & B2 & B3). split; [congruence|]. split; [congruence | lia]. Qed.

(* both computations return related values / throw the same error, and leave related states *)
Definition fsim {A B} (Q Q' : srel) (RA : A -> B -> Prop) (m1 : M A) (m2 : M B) : Prop :=
  forall s1 s2, W0 s1 s2 -> Q s1 s2 ->
    match m1 s1, m2 s2 with
    | (ROk a, t1), (ROk b, t2) => RA a b /\ W0 t1 t2 /\ Q' t1 t2 /\ frameA s1 t1
    | (RThrow e1, t1), (RThrow e2, t2) => e1 = e2 /\ W0 t1 t2
    | _, _ => False
    end.

Lemma fsim_bind {A B A' B'} (Q Q' Q'' : srel) (RA : A -> B -> Prop) (RB : A' -> B' -> Prop)
    (m1 : M A) (m2 : M B) (f : A -> M A') (g : B -> M B') :
  fsim Q Q' RA m1 m2 -> (forall a b, RA a b -> fsim Q' Q'' RB (f a) (g b)) ->
  fsim Q Q'' RB (mbind m1 f) (mbind m2 g).
Proof.
  intros Hm Hf s1 s2 HW HQ. unfold mbind. specialize (Hm s1 s2 HW HQ).
  destruct (m1 s1) as [[a|e1] t1]; destruct (m2 s2) as [[b|e2] t2]; try contradiction.
  - destruct Hm as (Hab & HW' & HQ' & HF).
    specialize (Hf a b Hab t1 t2 HW' HQ').
    destruct (f a t1) as [[a'|e1'] u1]; destruct (g b t2) as [[b'|e2'] u2]; try contradiction.
    + destruct Hf as (H1 & H2 & H3 & H4). split; [exact H1|]. split; [exact H2|]. split; [exact H3|].
      eapply frameA_trans; eassumption.
    + exact Hf.
  - exact Hm.
Qed.

Lemma fsim_ret {A B} (Q : srel) (RA : A -> B -> Prop) a b : RA a b -> fsim Q Q RA (ret a) (ret b).
Proof.
  intros H s1 s2 HW HQ. unfold ret. split; [exact H|]. split; [exact HW|]. split; [exact HQ | apply frameA_refl].
Qed.

Lemma fsim_throw {A B} (Q Q' : srel) (RA : A -> B -> Prop) e : fsim Q Q' RA (@throw A e) (@throw B e).
Proof. intros s1 s2 HW HQ. unfold throw. split; [reflexivity | exact HW]. Qed.

Lemma fsim_mget (Q : srel) : fsim Q Q (fun a b => W0 a b /\ Q a b) mget mget.
Proof.
  intros s1 s2 HW HQ. unfold mget. split; [split; assumption|]. split; [exact HW|].
  split; [exact HQ | apply frameA_refl].
Qed.

Lemma fsim_weaken {A B} (Q Q' Q2 : srel) (RA RA' : A -> B -> Prop) m1 m2 :
  fsim Q Q' RA m1 m2 -> (forall a b, RA a b -> RA' a b) -> (forall s1 s2, Q' s1 s2 -> Q2 s1 s2) ->
  fsim Q Q2 RA' m1 m2.
Proof.
  intros H HR HQ' s1 s2 HW HQ. specialize (H s1 s2 HW HQ).
  destruct (m1 s1) as [[a|e1] t1]; destruct (m2 s2) as [[b|e2] t2]; try contradiction; [|exact H].
  destruct H as (H1 & H2 & H3 & H4). split; [apply HR; exact H1|]. split; [exact H2|].
  split; [apply HQ'; exact H3 | exact H4].
Qed.

Lemma fsim_pre {A B} (Q0 Q Q' : srel) (RA : A -> B -> Prop) m1 m2 :
  fsim Q Q' RA m1 m2 -> (forall s1 s2, Q0 s1 s2 -> Q s1 s2) -> fsim Q0 Q' RA m1 m2.
Proof. intros H HQ s1 s2 HW HQ0. apply H; [exact HW | apply HQ; exact HQ0]. Qed.

(* a pure update of fields other than the window, the trees and the decoders *)
Lemma fsim_mupd (Q : srel) (f : flst -> flst) : slot_only Q ->
  (forall s1 s2, W0 s1 s2 -> W0 (f s1) (f s2)) ->
  (forall s, slots_same s (f s)) -> (forall s, frameA s (f s)) ->
  fsim Q Q (fun _ _ => True) (mupd f) (mupd f).
Proof.
  intros HQ Hw Hs Hf s1 s2 HW Hq. unfold mupd. split; [exact I|]. split; [apply Hw; exact HW|].
  split; [apply (HQ s1 s2); [apply Hs | apply Hs | exact Hq] | apply Hf].
Qed.

(* ---- the bit reader ---------------------------------------------------------------------------------------- *)
Lemma sim_set_rd (Q : srel) s1 s2 p : slot_only Q -> W0 s1 s2 -> Q s1 s2 ->
  W0 (set_rd s1 p) (set_rd s2 p) /\ Q (set_rd s1 p) (set_rd s2 p) /\ frameA s1 (set_rd s1 p).
Proof.
  intros HQ HW Hq. split; [w0_solve HW|]. split.
  - apply (HQ s1 s2); [slots_solve | slots_solve | exact Hq].
  - frame_solve.
Qed.

Lemma m_read_bits_sim (Q : srel) nb : slot_only Q -> fsim Q Q eq (m_read_bits nb) (m_read_bits nb).
Proof.
  intros HQ s1 s2 HW Hq. unfold m_read_bits. rewrite <- (w_rd _ _ HW).
  destruct (read_bits (f_rd s1) nb) as [[v|] p'];
    destruct (sim_set_rd Q s1 s2 p' HQ HW Hq) as (H1 & H2 & H3).
  - split; [reflexivity|]. split; [exact H1|]. split; assumption.
  - split; [reflexivity | exact H1].
Qed.

Lemma m_try_read_bits_sim (Q : srel) nb : slot_only Q -> fsim Q Q eq (m_try_read_bits nb) (m_try_read_bits nb).
Proof.
  intros HQ s1 s2 HW Hq. unfold m_try_read_bits. rewrite <- (w_rd _ _ HW).
  destruct (try_read_bits (f_rd s1) nb) as [o p'].
  destruct (sim_set_rd Q s1 s2 p' HQ HW Hq) as (H1 & H2 & H3).
  split; [reflexivity|]. split; [exact H1|]. split; assumption.
Qed.

Lemma m_bits_fast_sim (Q : srel) nb : slot_only Q -> fsim Q Q eq (m_bits_fast nb) (m_bits_fast nb).
Proof.
  intros HQ. unfold m_bits_fast. eapply fsim_bind; [apply m_try_read_bits_sim; exact HQ|].
  intros a b <-. destruct a as [v|]; [apply fsim_ret; reflexivity | apply m_read_bits_sim; exact HQ].
Qed.

Lemma m_read_pads_sim (Q : srel) : slot_only Q -> fsim Q Q eq m_read_pads m_read_pads.
Proof.
  intros HQ s1 s2 HW Hq. unfold m_read_pads. rewrite <- (w_rd _ _ HW).
  destruct (read_pads (f_rd s1)) as [v p'].
  destruct (sim_set_rd Q s1 s2 p' HQ HW Hq) as (H1 & H2 & H3).
  split; [reflexivity|]. split; [exact H1|]. split; assumption.
Qed.

Lemma m_read_symbol_sim (Q : srel) d d' : slot_only Q -> dec_eq d d' ->
  fsim Q Q eq (m_read_symbol d) (m_read_symbol d').
Proof.
  intros HQ HD s1 s2 HW Hq. unfold m_read_symbol. rewrite <- (w_rd _ _ HW), <- (dt_read_symbol_eq d d' _ HD).
  destruct (dt_read_symbol d (f_rd s1)) as [r p'].
  destruct (sim_set_rd Q s1 s2 p' HQ HW Hq) as (H1 & H2 & H3).
  destruct r; (split; [reflexivity|]); try exact H1; (split; [exact H1|]; split; assumption).
Qed.

Lemma m_symbol_fast_sim (Q : srel) d d' : slot_only Q -> dec_eq d d' ->
  fsim Q Q eq (m_symbol_fast d) (m_symbol_fast d').
Proof.
  intros HQ HD s1 s2 HW Hq. unfold m_symbol_fast. rewrite <- (w_rd _ _ HW), <- (try_read_symbol_eq d d' _ HD).
  destruct (try_read_symbol d (f_rd s1)) as [r p'].
  destruct (sim_set_rd Q s1 s2 p' HQ HW Hq) as (H1 & H2 & H3).
  destruct r as [[s|]|].
  - split; [reflexivity|]. split; [exact H1|]. split; assumption.
  - pose proof (m_read_symbol_sim Q d d' HQ HD (set_rd s1 p') (set_rd s2 p') H1 H2) as H.
    destruct (m_read_symbol d (set_rd s1 p')) as [[a|e1] t1];
      destruct (m_read_symbol d' (set_rd s2 p')) as [[b|e2] t2]; try contradiction; [|exact H].
    destruct H as (Ha & Hb & Hc & Hd). split; [exact Ha|]. split; [exact Hb|]. split; [exact Hc|].
    exact (frameA_trans _ _ _ H3 Hd).
  - split; [reflexivity | exact H1].
Qed.

(* ---- the window ---------------------------------------------------------------------------------------------- *)
Lemma sim_set_dict (Q : srel) s1 s2 d1 d2 : slot_only Q -> W0 s1 s2 -> Q s1 s2 ->
  dict_eq CapP d1 d2 -> (hist_size (f_dict s1) <= hist_size d1)%Z ->
  W0 (set_dict s1 d1) (set_dict s2 d2) /\ Q (set_dict s1 d1) (set_dict s2 d2) /\ frameA s1 (set_dict s1 d1).
Proof.
  intros HQ HW Hq HD Hh. split; [w0_solve HW|]. split.
  - apply (HQ s1 s2); [slots_solve | slots_solve | exact Hq].
  - split; [reflexivity|]. split; [reflexivity | fl_simpl'; exact Hh].
Qed.

Lemma m_flush_to_read_sim (Q : srel) : slot_only Q -> fsim Q Q (fun _ _ => True) m_flush_to_read m_flush_to_read.
Proof.
  intros HQ s1 s2 HW Hq. unfold m_flush_to_read.
  pose proof (read_flush_eq CapP CapP_grow _ _ (w_dict _ _ HW)) as H.
  destruct (read_flush (f_dict s1)) as [[bs1 d1]| | |]; destruct (read_flush (f_dict s2)) as [[bs2 d2]| | |];
    cbn [dres_rel fst snd] in H; try contradiction; try (split; [reflexivity | exact HW]).
  destruct H as (<- & HD & Hh).
  destruct (sim_set_dict Q s1 s2 d1 d2 HQ HW Hq HD Hh) as (H1 & H2 & H3).
  split; [exact I|]. split; [w0_solve H1|]. split.
  - apply (HQ (set_dict s1 d1) (set_dict s2 d2)); [slots_solve | slots_solve | exact H2].
  - destruct H3 as (A1 & A2 & A3). split; [exact A1|]. split; [exact A2 | exact A3].
Qed.

(* a window operation, at two given states *)
Lemma m_dict_sim_at {A} (Q : srel) (f : dd -> dres (A * dd)) s1 s2 : slot_only Q -> W0 s1 s2 -> Q s1 s2 ->
  dres_rel (fun r1 r2 => fst r1 = fst r2 /\ dict_eq CapP (snd r1) (snd r2) /\
                         (hist_size (f_dict s1) <= hist_size (snd r1))%Z)
           (f (f_dict s1)) (f (f_dict s2)) ->
  match m_dict f s1, m_dict f s2 with
  | (ROk a, t1), (ROk b, t2) => a = b /\ W0 t1 t2 /\ Q t1 t2 /\ frameA s1 t1
  | (RThrow e1, t1), (RThrow e2, t2) => e1 = e2 /\ W0 t1 t2
  | _, _ => False
  end.
Proof.
  intros HQ HW Hq H. unfold m_dict.
  destruct (f (f_dict s1)) as [[a d1]| | |]; destruct (f (f_dict s2)) as [[b d2]| | |];
    cbn [dres_rel fst snd] in H; try contradiction; try (split; [reflexivity | exact HW]).
  destruct H as (<- & HD & Hh).
  destruct (sim_set_dict Q s1 s2 d1 d2 HQ HW Hq HD Hh) as (H1 & H2 & H3).
  split; [reflexivity|]. split; [exact H1|]. split; assumption.
Qed.

Lemma m_write_byte_sim (Q : srel) c : slot_only Q -> fsim Q Q (fun _ _ => True) (m_write_byte c) (m_write_byte c).
Proof.
  intros HQ s1 s2 HW Hq. unfold m_write_byte.
  match goal with |- context [m_dict ?f s1] =>
    pose proof (m_dict_sim_at Q f s1 s2 HQ HW Hq) as H end.
  cbv beta in H.
  match type of H with ?P -> _ => assert (HP : P) end.
  { pose proof (write_byte_eq CapP CapP_grow _ _ c (w_dict _ _ HW)) as HB.
    destruct (write_byte (f_dict s1) c) as [d1| | |]; destruct (write_byte (f_dict s2) c) as [d2| | |];
      cbn [dres_rel fst snd] in *; try contradiction; try exact I.
    destruct HB as [HB1 HB2]. split; [reflexivity|]. split; assumption. }
  specialize (H HP). clear HP.
  destruct (m_dict _ s1) as [[a|e1] t1]; destruct (m_dict _ s2) as [[b|e2] t2]; try contradiction; [|exact H].
  destruct H as (_ & H2 & H3 & H4). split; [exact I|]. split; [exact H2|]. split; assumption.
Qed.

(* ---- relations on the decoder slots ----------------------------------------------------------------------- *)
Definition QT : srel := fun _ _ => True.
Definition Qc : srel := fun s1 s2 => dec_eq (ds_dec (f_clen s1)) (ds_dec (f_clen s2)).
Definition Q12 : srel := fun s1 s2 =>
  dec_eq (ds_dec (f_pd1 s1)) (ds_dec (f_pd1 s2)) /\ dec_eq (ds_dec (f_pd2 s1)) (ds_dec (f_pd2 s2)).
Definition Q1 : srel := fun s1 s2 => dec_eq (ds_dec (f_pd1 s1)) (ds_dec (f_pd1 s2)).
(* between steps: the dynamic tables are live exactly when the trees point to them *)
Definition QS : srel := fun s1 s2 => f_trees s1 = TDyn -> Q12 s1 s2.

Lemma QT_slot : slot_only QT.
Proof. intros s1 s2 t1 t2 _ _ _. exact I. Qed.
Lemma Qc_slot : slot_only Qc.
Proof. intros s1 s2 t1 t2 (_ & E1 & _) (_ & E2 & _) H. unfold Qc in *. rewrite E1, E2. exact H. Qed.
Lemma Q12_slot : slot_only Q12.
Proof.
  intros s1 s2 t1 t2 (_ & _ & E1 & E1') (_ & _ & E2 & E2') H. unfold Q12 in *.
  rewrite E1, E1', E2, E2'. exact H.
Qed.
Lemma Q1_slot : slot_only Q1.
Proof. intros s1 s2 t1 t2 (_ & _ & E1 & _) (_ & _ & E2 & _) H. unfold Q1 in *. rewrite E1, E2. exact H. Qed.
Lemma QS_slot : slot_only QS.
Proof.
  intros s1 s2 t1 t2 S1 S2 H. unfold QS in *. pose proof S1 as (E & _). rewrite E. intros Ht.
  apply (Q12_slot s1 s2 t1 t2 S1 S2). apply H. exact Ht.
Qed.

(* ---- flate/prefix.go ---------------------------------------------------------------------------------------- *)
Lemma m_gen_prefixes_sim (Q : srel) lens :
  fsim Q Q (fun a b => a = b /\ gen_prefixes lens = GPOk a) (m_gen_prefixes lens) (m_gen_prefixes lens).
Proof.
  unfold m_gen_prefixes. destruct (gen_prefixes lens) as [out|] eqn:E.
  - apply fsim_ret. split; reflexivity.
  - apply fsim_throw.
Qed.

Lemma read_clens_arr_sim (Q : srel) : slot_only Q -> forall order arr,
  fsim Q Q eq (read_clens_arr order arr) (read_clens_arr order arr).
Proof.
  intros HQ. induction order as [|sym r IH]; intros arr; cbn [read_clens_arr].
  - apply fsim_ret. reflexivity.
  - eapply fsim_bind; [apply m_read_bits_sim; exact HQ|]. intros clen b <-.
    destruct (0 <? clen).
    + destruct (list_set arr (N.to_nat sym) clen) as [arr'|]; [apply IH | apply fsim_throw].
    + apply IH.
Qed.

Lemma clen_loop_sim : forall fuel numLit maxSyms s,
  fsim Qc Qc eq (clen_loop fuel numLit maxSyms s) (clen_loop fuel numLit maxSyms s).
Proof.
  induction fuel as [|f IH]; intros numLit maxSyms s; cbn [clen_loop].
  - apply fsim_throw.
  - destruct (negb (c_sym' s <? maxSyms)); [apply fsim_ret; reflexivity|].
    eapply fsim_bind; [apply fsim_mget|]. intros a b [HWab Hqab].
    eapply fsim_bind; [apply m_read_symbol_sim; [exact Qc_slot | exact Hqab]|]. intros clen ? <-.
    destruct (clen <? 16); [apply IH|].
    eapply fsim_bind with (RA := eq).
    + destruct (clen =? 16).
      * destruct (c_sym' s =? 0); [apply fsim_throw|].
        eapply fsim_bind; [apply m_read_bits_sim; exact Qc_slot|]. intros x ? <-. apply fsim_ret. reflexivity.
      * destruct (clen =? 17).
        -- eapply fsim_bind; [apply m_read_bits_sim; exact Qc_slot|]. intros x ? <-. apply fsim_ret. reflexivity.
        -- destruct (clen =? 18); [|apply fsim_throw].
           eapply fsim_bind; [apply m_read_bits_sim; exact Qc_slot|]. intros x ? <-. apply fsim_ret. reflexivity.
    + intros [cl repCnt] ? <-.
      destruct (maxSyms <? c_sym' s + repCnt); [apply fsim_throw | apply IH].
Qed.

(* pd.Init(codes) of GeneratePrefixes' output, for each of the three Decoder objects *)
Lemma slot_init_sim (Q Q' : srel) (get : flst -> dslot) (set : flst -> dslot -> flst) lens codes :
  gen_prefixes lens = GPOk codes -> length lens <> 1%nat ->
  (forall s1 s2 a b, W0 s1 s2 -> W0 (set s1 a) (set s2 b)) ->
  (forall s a, frameA s (set s a)) ->
  (forall s1 s2 a b, Q s1 s2 -> dec_eq (ds_dec a) (ds_dec b) -> Q' (set s1 a) (set s2 b)) ->
  fsim Q Q' (fun _ _ => True) (m_slot_init get set codes) (m_slot_init get set codes).
Proof.
  intros E H1 Hw Hf Hq s1 s2 HW HQ. unfold m_slot_init.
  pose proof (slot_init_eq lens codes (get s1) (get s2) E H1) as H.
  destruct (slot_init (get s1) codes) as [a| |]; destruct (slot_init (get s2) codes) as [b| |];
    cbn [ires_rel] in H; try contradiction; try (split; [reflexivity | exact HW]).
  split; [exact I|]. split; [apply Hw; exact HW|]. split; [apply Hq; assumption | apply Hf].
Qed.

Lemma read_prefix_codes_sim : fsim QT Q12 (fun _ _ => True) read_prefix_codes read_prefix_codes.
Proof.
  unfold read_prefix_codes.
  eapply fsim_bind; [apply m_read_bits_sim; exact QT_slot|]. intros hlit ? <-.
  eapply fsim_bind; [apply m_read_bits_sim; exact QT_slot|]. intros hdist ? <-.
  eapply fsim_bind; [apply m_read_bits_sim; exact QT_slot|]. intros hclen ? <-.
  destruct ((maxNumLitSyms <? hlit + 257) || (maxNumDistSyms <? hdist + 1)); [apply fsim_throw|].
  destruct (N.of_nat (length clenLens) <? hclen + 4); [apply fsim_throw|].
  eapply fsim_bind; [apply read_clens_arr_sim; exact QT_slot|]. intros arr ? <-.
  eapply fsim_bind; [apply m_gen_prefixes_sim|]. intros cc ? [<- Ecc].
  eapply fsim_bind.
  { apply (slot_init_sim QT Qc f_clen set_clen _ cc Ecc (handle_degenerate_len _ _)).
    - intros s1 s2 a b HW. w0_solve HW.
    - intros s a. frame_solve.
    - intros s1 s2 a b _ H. exact H. }
  intros _ _ _.
  eapply fsim_bind; [apply clen_loop_sim|]. intros s ? <-.
  eapply fsim_bind; [apply m_gen_prefixes_sim|]. intros lc ? [<- Elc].
  eapply fsim_bind.
  { apply (slot_init_sim Qc Q1 f_pd1 set_pd1 _ lc Elc (handle_degenerate_len _ _)).
    - intros s1 s2 a b HW. w0_solve HW.
    - intros s0 a. frame_solve.
    - intros s1 s2 a b _ H. exact H. }
  intros _ _ _.
  eapply fsim_bind; [apply m_gen_prefixes_sim|]. intros dc ? [<- Edc].
  eapply fsim_bind.
  { apply (slot_init_sim Q1 Q12 f_pd2 set_pd2 _ dc Edc (handle_degenerate_len _ _)).
    - intros s1 s2 a b HW. w0_solve HW.
    - intros s0 a. frame_solve.
    - intros s1 s2 a b H1 H. split; [exact H1 | exact H]. }
  intros _ _ _.
  eapply fsim_bind; [apply fsim_mget|]. intros a b [HWab _].
  rewrite <- (w_rd _ _ HWab).
  destruct (negb (p_buffered (f_rd a))); [|apply fsim_ret; exact I].
  destruct (eob_len (fast_rev lc)) as [l|]; [|apply fsim_ret; exact I].
  intros s1 s2 HW [H1 H2]. unfold mupd. split; [exact I|]. split; [w0_solve HW|]. split.
  - split; fl_simpl'; cbn [ds_dec]; [apply set_min_bits_eq; exact H1 | exact H2].
  - frame_solve.
Qed.

(* ---- flate/reader.go ---------------------------------------------------------------------------------------- *)
Lemma finish_block_sim (Q : srel) : slot_only Q -> fsim Q Q (fun _ _ => True) finish_block finish_block.
Proof.
  intros HQ. unfold finish_block.
  eapply fsim_bind; [apply fsim_mget|]. intros a b [HWab _]. rewrite <- (w_last _ _ HWab).
  eapply fsim_bind with (RA := fun _ _ => True).
  - destruct (f_last a); [|apply fsim_ret; exact I].
    eapply fsim_bind; [apply m_read_pads_sim; exact HQ|]. intros _ _ _.
    apply fsim_mupd; [exact HQ | intros s1 s2 HW; w0_solve HW | intros s; slots_solve | intros s; frame_solve].
  - intros _ _ _.
    apply fsim_mupd; [exact HQ | intros s1 s2 HW; w0_solve HW | intros s; slots_solve | intros s; frame_solve].
Qed.

Lemma read_block_header_sim : fsim QS QS (fun _ _ => True) read_block_header read_block_header.
Proof.
  unfold read_block_header.
  eapply fsim_bind; [apply m_read_bits_sim; exact QS_slot|]. intros l ? <-.
  eapply fsim_bind.
  { apply (fsim_mupd QS); [exact QS_slot | intros s1 s2 HW; w0_solve HW | intros s; slots_solve | intros s; frame_solve]. }
  intros _ _ _.
  eapply fsim_bind; [apply m_read_bits_sim; exact QS_slot|]. intros typ ? <-.
  destruct (typ =? 0).
  - eapply fsim_bind; [apply m_read_pads_sim; exact QS_slot|]. intros _ _ _.
    eapply fsim_bind; [apply m_read_bits_sim; exact QS_slot|]. intros n ? <-.
    eapply fsim_bind; [apply m_read_bits_sim; exact QS_slot|]. intros nn ? <-.
    destruct (negb (N.lxor (n mod 65536) (nn mod 65536) =? 65535)); [apply fsim_throw|].
    eapply fsim_bind.
    { apply (fsim_mupd QS); [exact QS_slot | intros s1 s2 HW; w0_solve HW | intros s; slots_solve | intros s; frame_solve]. }
    intros _ _ _.
    destruct (n mod 65536 =? 0).
    + eapply fsim_bind; [apply m_flush_to_read_sim; exact QS_slot|]. intros _ _ _.
      apply finish_block_sim. exact QS_slot.
    + apply (fsim_mupd QS); [exact QS_slot | intros s1 s2 HW; w0_solve HW | intros s; slots_solve | intros s; frame_solve].
  - destruct (typ =? 1).
    + intros s1 s2 HW _. unfold mupd. split; [exact I|]. split; [w0_solve HW|]. split.
      * unfold QS. fl_simpl'. intros C; discriminate.
      * frame_solve.
    + destruct (typ =? 2); [|apply fsim_throw].
      eapply fsim_bind with (Q' := QT) (RA := fun _ _ => True).
      { intros s1 s2 HW _. unfold mupd. split; [exact I|]. split; [w0_solve HW|]. split; [exact I | frame_solve]. }
      intros _ _ _.
      eapply fsim_bind; [apply read_prefix_codes_sim|]. intros _ _ _.
      eapply fsim_weaken with (Q' := Q12) (RA := fun _ _ => True).
      * apply (fsim_mupd Q12); [exact Q12_slot | intros s1 s2 HW; w0_solve HW | intros s; slots_solve | intros s; frame_solve].
      * intros; exact I.
      * intros s1 s2 H _. exact H.
Qed.

(* ---- readRawData ---------------------------------------------------------------------------------------------- *)
Lemma drain_len k : forall p acc, (length (fst (drain k p acc)) <= length acc + k)%nat.
Proof.
  induction k as [|k IH]; intros p acc; cbn [drain].
  - cbn [fst]. rewrite fast_rev_eq, rev_length. lia.
  - destruct (p_numBits p =? 0).
    + cbn [fst]. rewrite fast_rev_eq, rev_length. lia.
    + etransitivity; [apply IH|]. cbn [length]. lia.
Qed.

Lemma read_raw_len p k : (length (fst (fst (read_raw p k))) <= k)%nat.
Proof.
  unfold read_raw. destruct (0 <? p_numBits p).
  - destruct (negb (p_numBits p mod 8 =? 0)); [cbn; lia|].
    pose proof (drain_len k p []) as H. destruct (drain k p []) as [bs p']. cbn [fst length] in *. lia.
  - destruct (flush _) as [short p1]. destruct short; [cbn; lia|].
    unfold src_read. destruct (Nat.eqb (s_avail (p_src p1)) 0); [cbn; lia|].
    destruct (s_reads (p_src p1)) as [|e r]; cbn [fst]; rewrite firstn_length; lia.
Qed.

(* the part of readRawData after rd.Read: the bytes fit into the window *)
Definition raw_tail (bs : list byte) (e : N) (p' : prd) : M unit :=
  mupd (fun st => set_blkLen (set_rd st p') (f_blkLen st - zlen bs)%Z) ;;;
  m_dict (fun d => write_raw d bs) ;;;
  (if e =? 0 then ret tt
   else if e =? 1 then throw EUEOF
   else if e =? 2 then throw EInvalid
   else throw EUEOF) ;;;
  st <- mget ;;
  if (0 <? f_blkLen st)%Z then
    m_flush_to_read ;;; mupd (fun st => set_step st StRaw)
  else finish_block.

Lemma raw_tail_sim (Q : srel) bs e p' : slot_only Q ->
  fsim (fun s1 s2 => Q s1 s2 /\ (zlen bs <= d_len (f_dict s1) - d_wr (f_dict s1))%Z) Q (fun _ _ => True)
       (raw_tail bs e p') (raw_tail bs e p').
Proof.
  intros HQ. unfold raw_tail.
  set (QR := fun s1 s2 : flst => Q s1 s2 /\ (zlen bs <= d_len (f_dict s1) - d_wr (f_dict s1))%Z).
  eapply fsim_bind with (Q' := QR) (RA := fun _ _ => True).
  { intros s1 s2 HW [Hq Hroom]. unfold mupd. split; [exact I|]. split; [w0_solve HW|]. split.
    - split; [apply (HQ s1 s2); [slots_solve | slots_solve | exact Hq] | exact Hroom].
    - frame_solve. }
  intros _ _ _.
  eapply fsim_bind with (Q' := Q) (RA := fun _ _ => True).
  { intros u1 u2 HWu [Hqu Hroom].
    pose proof (m_dict_sim_at Q (fun d => write_raw d bs) u1 u2 HQ HWu Hqu) as H.
    cbv beta in H.
    match type of H with ?P -> _ => assert (HP : P) end.
    { apply (write_raw_eq CapP CapP_grow _ _ bs (w_dict _ _ HWu)). exact Hroom. }
    specialize (H HP). clear HP.
    destruct (m_dict _ u1) as [[a|e1] t1]; destruct (m_dict _ u2) as [[b|e2] t2]; try contradiction; [|exact H].
    destruct H as (_ & H2 & H3 & H4). split; [exact I|]. split; [exact H2|]. split; [exact H3 | exact H4]. }
  intros _ _ _.
  eapply fsim_bind with (Q' := Q) (RA := fun _ _ => True).
  { destruct (e =? 0); [apply fsim_ret; exact I|].
    destruct (e =? 1); [apply fsim_throw|]. destruct (e =? 2); apply fsim_throw. }
  intros _ _ _.
  eapply fsim_bind; [apply fsim_mget|]. intros a b [HWab _]. rewrite <- (w_blkLen _ _ HWab).
  destruct (0 <? f_blkLen a)%Z.
  - eapply fsim_bind; [apply m_flush_to_read_sim; exact HQ|]. intros _ _ _.
    apply fsim_mupd; [exact HQ | intros s1 s2 HW; w0_solve HW | intros s; slots_solve | intros s; frame_solve].
  - apply finish_block_sim. exact HQ.
Qed.

Lemma read_raw_data_eq st :
  read_raw_data st =
  let dict := f_dict st in
  if negb (slice_ok (d_len dict) (d_wr dict) (d_len dict)) then (RThrow EPanic, st) else
  let avail := (d_len dict - d_wr dict)%Z in
  let k := if (f_blkLen st <? avail)%Z then f_blkLen st else avail in
  if (k <? 0)%Z then (RThrow EPanic, st) else
  let '((bs, e), p') := read_raw (f_rd st) (Z.to_nat k) in raw_tail bs e p' st.
Proof.
  unfold read_raw_data. unfold mbind at 1. unfold mget. cbv zeta.
  destruct (negb (slice_ok _ _ _)); [reflexivity|].
  destruct (_ <? 0)%Z; [reflexivity|].
  destruct (read_raw _ _) as [[bs e] p']. reflexivity.
Qed.

Lemma read_raw_data_sim (Q : srel) : slot_only Q -> fsim Q Q (fun _ _ => True) read_raw_data read_raw_data.
Proof.
  intros HQ s1 s2 HW Hq. rewrite !read_raw_data_eq. cbv zeta.
  pose proof (w_dict _ _ HW) as HD.
  rewrite <- (de_len _ _ _ HD), <- (de_wr _ _ _ HD), <- (w_blkLen _ _ HW), <- (w_rd _ _ HW).
  destruct (negb (slice_ok _ _ _)); [split; [reflexivity | exact HW]|].
  set (avail := (d_len (f_dict s1) - d_wr (f_dict s1))%Z).
  set (k := if (f_blkLen s1 <? avail)%Z then f_blkLen s1 else avail).
  destruct (k <? 0)%Z eqn:Ek; [split; [reflexivity | exact HW]|].
  pose proof (read_raw_len (f_rd s1) (Z.to_nat k)) as Hlen.
  destruct (read_raw (f_rd s1) (Z.to_nat k)) as [[bs e] p']. cbn [fst] in Hlen.
  apply (raw_tail_sim Q bs e p' HQ s1 s2 HW). split; [exact Hq|].
  unfold zlen. fold avail. unfold k in *. destruct (f_blkLen s1 <? avail)%Z eqn:E; lia.
Qed.

(* ---- readBlock: pointwise reasoning -------------------------------------------------------------------------- *)
Definition orel {A B} (RA : A -> B -> Prop) (Post : srel) (x : res A * flst) (y : res B * flst) : Prop :=
  match x, y with
  | (ROk a, t1), (ROk b, t2) => RA a b /\ W0 t1 t2 /\ Post t1 t2
  | (RThrow e1, t1), (RThrow e2, t2) => e1 = e2 /\ W0 t1 t2
  | _, _ => False
  end.

Lemma orel_bind {A B A' B'} (RA : A -> B -> Prop) (RB : A' -> B' -> Prop) (Mid Post : srel)
    (m1 : M A) (m2 : M B) (f : A -> M A') (g : B -> M B') s1 s2 :
  orel RA Mid (m1 s1) (m2 s2) ->
  (forall a b t1 t2, RA a b -> W0 t1 t2 -> Mid t1 t2 -> orel RB Post (f a t1) (g b t2)) ->
  orel RB Post (mbind m1 f s1) (mbind m2 g s2).
Proof.
  intros H Hk. unfold mbind, orel in *.
  destruct (m1 s1) as [[a|e1] t1]; destruct (m2 s2) as [[b|e2] t2]; try contradiction; [|exact H].
  destruct H as (H1 & H2 & H3). apply (Hk a b t1 t2 H1 H2 H3).
Qed.

Lemma orel_mget {A' B'} (RB : A' -> B' -> Prop) (Post : srel) (f : flst -> M A') (g : flst -> M B') s1 s2 :
  orel RB Post (f s1 s1) (g s2 s2) -> orel RB Post (mbind mget f s1) (mbind mget g s2).
Proof. intros H. exact H. Qed.

Lemma orel_weaken {A B} (RA RA' : A -> B -> Prop) (P P' : srel) x y :
  orel RA P x y -> (forall a b, RA a b -> RA' a b) -> (forall t1 t2, W0 t1 t2 -> P t1 t2 -> P' t1 t2) ->
  orel RA' P' x y.
Proof.
  intros H HR HP. unfold orel in *. destruct x as [[a|e1] t1]; destruct y as [[b|e2] t2]; try contradiction; [|exact H].
  destruct H as (H1 & H2 & H3). split; [apply HR; exact H1|]. split; [exact H2 | apply HP; assumption].
Qed.

Lemma fsim_orel_f {A B} (Q Q' : srel) (RA : A -> B -> Prop) m1 m2 s1 s2 :
  fsim Q Q' RA m1 m2 -> W0 s1 s2 -> Q s1 s2 ->
  orel RA (fun t1 t2 => Q' t1 t2 /\ frameA s1 t1) (m1 s1) (m2 s2).
Proof. intros H HW HQ. exact (H s1 s2 HW HQ). Qed.

Lemma fsim_orel {A B} (Q Q' : srel) (RA : A -> B -> Prop) m1 m2 s1 s2 :
  fsim Q Q' RA m1 m2 -> W0 s1 s2 -> Q s1 s2 -> orel RA Q' (m1 s1) (m2 s2).
Proof.
  intros H HW HQ. eapply orel_weaken; [apply (fsim_orel_f Q Q' RA m1 m2 s1 s2 H HW HQ) | auto |].
  intros t1 t2 _ [H1 _]. exact H1.
Qed.

Lemma orel_mupd (Post : srel) (f : flst -> flst) s1 s2 :
  W0 (f s1) (f s2) -> Post (f s1) (f s2) -> orel (fun _ _ : unit => True) Post (mupd f s1) (mupd f s2).
Proof. intros H1 H2. unfold mupd, orel. split; [exact I|]. split; assumption. Qed.

Lemma orel_throw {A B} (RA : A -> B -> Prop) (Post : srel) e s1 s2 : W0 s1 s2 ->
  orel RA Post (@throw A e s1) (@throw B e s2).
Proof. intros H. unfold throw, orel. split; [reflexivity | exact H]. Qed.

(* the copy invariant of readBlock: at label copyDistance the distance lies within the history *)
Definition DI (s : flst) : Prop :=
  f_stepState s = true -> (0 <= f_dist s <= hist_size (f_dict s))%Z.

Lemma m_tree_lit_sim s1 s2 : W0 s1 s2 -> QS s1 s2 ->
  orel dec_eq (fun t1 t2 => t1 = s1 /\ t2 = s2) (m_tree lit_tree s1) (m_tree lit_tree s2).
Proof.
  intros HW HQ. unfold m_tree, lit_tree, orel. rewrite <- (w_trees _ _ HW).
  destruct (f_trees s1) eqn:Et.
  - split; [reflexivity | exact HW].
  - destruct decLit as [d| |]; cbn [of_ires].
    + split; [apply dec_eq_refl|]. split; [exact HW | split; reflexivity].
    + split; [reflexivity | exact HW].
    + split; [reflexivity | exact HW].
  - split; [apply (HQ Et)|]. split; [exact HW | split; reflexivity].
Qed.

Lemma m_tree_dist_sim s1 s2 : W0 s1 s2 -> QS s1 s2 ->
  orel dec_eq (fun t1 t2 => t1 = s1 /\ t2 = s2) (m_tree dist_tree s1) (m_tree dist_tree s2).
Proof.
  intros HW HQ. unfold m_tree, dist_tree, orel. rewrite <- (w_trees _ _ HW).
  destruct (f_trees s1) eqn:Et.
  - split; [reflexivity | exact HW].
  - destruct decDist as [d| |]; cbn [of_ires].
    + split; [apply dec_eq_refl|]. split; [exact HW | split; reflexivity].
    + split; [reflexivity | exact HW].
    + split; [reflexivity | exact HW].
  - split; [apply (HQ Et)|]. split; [exact HW | split; reflexivity].
Qed.

Lemma m_range_sim (Q : srel) rs i : fsim Q Q eq (m_range rs i) (m_range rs i).
Proof.
  unfold m_range. destruct (nth_error rs (N.to_nat i)); [apply fsim_ret; reflexivity | apply fsim_throw].
Qed.

Lemma QS_upd s1 s2 t1 t2 : slots_same s1 t1 -> slots_same s2 t2 -> QS s1 s2 -> QS t1 t2.
Proof. apply QS_slot. Qed.

Lemma read_block_loop_sim : forall fuel copying s1 s2, W0 s1 s2 -> QS s1 s2 ->
  (copying = true -> (0 <= f_dist s1 <= hist_size (f_dict s1))%Z) ->
  orel (fun _ _ => True) (fun t1 t2 => QS t1 t2 /\ DI t1)
       (read_block_loop fuel copying s1) (read_block_loop fuel copying s2).
Proof.
  induction fuel as [|f IH]; intros copying s1 s2 HW HQ Hcp; cbn [read_block_loop].
  - apply orel_throw. exact HW.
  - destruct copying.
    + (* copyDistance *)
      specialize (Hcp eq_refl).
      apply orel_mget. rewrite <- (w_dist _ _ HW), <- (w_cpyLen _ _ HW).
      eapply orel_bind with (RA := eq) (Mid := fun t1 t2 => QS t1 t2 /\ frameA s1 t1).
      { apply (m_dict_sim_at QS _ s1 s2 QS_slot HW HQ).
        apply (try_write_copy_eq CapP CapP_grow). exact (w_dict _ _ HW). }
      intros cnt0 ? t1 t2 <- HW1 [HQ1 HF1].
      eapply orel_bind with (RA := eq) (Mid := fun u1 u2 => QS u1 u2 /\ frameA s1 u1).
      { destruct (cnt0 =? 0)%Z.
        - eapply orel_weaken.
          + apply (m_dict_sim_at QS _ t1 t2 QS_slot HW1 HQ1).
            apply (write_copy_eq CapP CapP_grow); [exact (w_dict _ _ HW1)|].
            destruct HF1 as (_ & _ & Hh). lia.
          + auto.
          + intros u1 u2 _ [Hq Hf]. split; [exact Hq | exact (frameA_trans _ _ _ HF1 Hf)].
        - unfold ret, orel. split; [reflexivity|]. split; [exact HW1|]. split; assumption. }
      intros cnt ? u1 u2 <- HW2 [HQ2 HF2].
      eapply orel_bind with (RA := fun _ _ => True) (Mid := fun v1 v2 => QS v1 v2 /\ frameA s1 v1).
      { apply orel_mupd.
        - w0_solve HW2.
        - split; [apply (QS_upd u1 u2); [slots_solve | slots_solve | exact HQ2]|].
          destruct HF2 as (A1 & A2 & A3). split; [exact A1|]. split; [exact A2 | exact A3]. }
      intros _ _ v1 v2 _ HW3 [HQ3 HF3].
      apply orel_mget. rewrite <- (w_cpyLen _ _ HW3).
      destruct (0 <? f_cpyLen v1)%Z.
      * eapply orel_bind with (RA := fun _ _ => True) (Mid := fun x1 x2 => QS x1 x2 /\ frameA s1 x1).
        { eapply orel_weaken.
          - apply (fsim_orel_f QS QS _ _ _ v1 v2 (m_flush_to_read_sim QS QS_slot) HW3 HQ3).
          - auto.
          - intros x1 x2 _ [Hq Hf]. split; [exact Hq | exact (frameA_trans _ _ _ HF3 Hf)]. }
        intros _ _ x1 x2 _ HW4 [HQ4 HF4].
        apply orel_mupd; [w0_solve HW4|]. split.
        -- apply (QS_upd x1 x2); [slots_solve | slots_solve | exact HQ4].
        -- unfold DI. fl_simpl'. intros _. destruct HF4 as (_ & A2 & A3). rewrite A2. lia.
      * apply IH; [exact HW3 | exact HQ3 | intros C; discriminate].
    + (* readLiteral *)
      apply orel_mget. rewrite <- (dict_eq_avail _ _ _ (w_dict _ _ HW)).
      destruct (avail_size (f_dict s1) =? 0)%Z.
      * eapply orel_bind with (Mid := QS).
        { apply (fsim_orel QS QS _ _ _ s1 s2 (m_flush_to_read_sim QS QS_slot) HW HQ). }
        intros _ _ x1 x2 _ HW4 HQ4.
        apply orel_mupd; [w0_solve HW4|]. split.
        -- apply (QS_upd x1 x2); [slots_solve | slots_solve | exact HQ4].
        -- unfold DI. fl_simpl'. intros C; discriminate.
      * eapply orel_bind; [apply (m_tree_lit_sim s1 s2 HW HQ)|].
        intros lt lt' ? ? Hlt _ [-> ->].
        eapply orel_bind with (RA := eq) (Mid := QS).
        { apply (fsim_orel QS QS _ _ _ s1 s2 (m_symbol_fast_sim QS lt lt' QS_slot Hlt) HW HQ). }
        intros litSym ? t1 t2 <- HW1 HQ1.
        destruct (litSym <? endBlockSym).
        { eapply orel_bind with (Mid := QS).
          { apply (fsim_orel QS QS _ _ _ t1 t2 (m_write_byte_sim QS _ QS_slot) HW1 HQ1). }
          intros _ _ u1 u2 _ HW2 HQ2. apply IH; [exact HW2 | exact HQ2 | intros C; discriminate]. }
        destruct (litSym =? endBlockSym).
        { eapply orel_bind with (Mid := QS).
          { apply (fsim_orel QS QS _ _ _ t1 t2 (finish_block_sim QS QS_slot) HW1 HQ1). }
          intros _ _ u1 u2 _ HW2 HQ2.
          apply orel_mupd; [w0_solve HW2|]. split.
          - apply (QS_upd u1 u2); [slots_solve | slots_solve | exact HQ2].
          - unfold DI. fl_simpl'. intros C; discriminate. }
        destruct (litSym <? maxNumLitSyms); [|apply orel_throw; exact HW1].
        eapply orel_bind with (RA := eq) (Mid := QS).
        { apply (fsim_orel QS QS _ _ _ t1 t2 (m_range_sim QS _ _) HW1 HQ1). }
        intros rc ? u1 u2 <- HW2 HQ2.
        eapply orel_bind with (RA := eq) (Mid := QS).
        { apply (fsim_orel QS QS _ _ _ u1 u2 (m_bits_fast_sim QS _ QS_slot) HW2 HQ2). }
        intros extra ? v1 v2 <- HW3 HQ3.
        eapply orel_bind with (Mid := QS).
        { apply orel_mupd; [w0_solve HW3 | apply (QS_upd v1 v2); [slots_solve | slots_solve | exact HQ3]]. }
        intros _ _ x1 x2 _ HW4 HQ4.
        eapply orel_bind; [apply (m_tree_dist_sim x1 x2 HW4 HQ4)|].
        intros dt dt' ? ? Hdt _ [-> ->].
        eapply orel_bind with (RA := eq) (Mid := QS).
        { apply (fsim_orel QS QS _ _ _ x1 x2 (m_symbol_fast_sim QS dt dt' QS_slot Hdt) HW4 HQ4). }
        intros distSym ? y1 y2 <- HW5 HQ5.
        destruct (maxNumDistSyms <=? distSym); [apply orel_throw; exact HW5|].
        eapply orel_bind with (RA := eq) (Mid := QS).
        { apply (fsim_orel QS QS _ _ _ y1 y2 (m_range_sim QS _ _) HW5 HQ5). }
        intros rc2 ? z1 z2 <- HW6 HQ6.
        eapply orel_bind with (RA := eq) (Mid := QS).
        { apply (fsim_orel QS QS _ _ _ z1 z2 (m_bits_fast_sim QS _ QS_slot) HW6 HQ6). }
        intros extra2 ? a1 a2 <- HW7 HQ7.
        set (dv := (Z.of_N (fst rc2) + Z.of_N extra2)%Z).
        eapply orel_bind with (Mid := fun b1 b2 => QS b1 b2 /\ f_dist b1 = dv).
        { apply orel_mupd; [w0_solve HW7|]. split; [|reflexivity].
          apply (QS_upd a1 a2); [slots_solve | slots_solve | exact HQ7]. }
        intros _ _ b1 b2 _ HW8 [HQ8 Hdv].
        apply orel_mget. rewrite <- (dict_eq_hist _ _ _ (w_dict _ _ HW8)), <- (w_dist _ _ HW8).
        destruct (hist_size (f_dict b1) <? f_dist b1)%Z eqn:Eh; [apply orel_throw; exact HW8|].
        apply IH; [exact HW8 | exact HQ8 |]. intros _. rewrite Hdv in *. unfold dv in *. lia.
Qed.

Lemma read_block_sim s1 s2 : W0 s1 s2 -> QS s1 s2 -> DI s1 ->
  orel (fun _ _ => True) (fun t1 t2 => QS t1 t2 /\ DI t1) (read_block s1) (read_block s2).
Proof.
  intros HW HQ HD. unfold read_block. apply orel_mget.
  rewrite <- (dict_eq_avail _ _ _ (w_dict _ _ HW)), <- (w_stepState _ _ HW).
  apply read_block_loop_sim; [exact HW | exact HQ | exact HD].
Qed.

Lemma DI_frame s t : DI s -> frameA s t -> DI t.
Proof. intros HD (A1 & A2 & A3). unfold DI in *. rewrite A1, A2. intros H. specialize (HD H). lia. Qed.

(* ---- zr.step(zr) ---------------------------------------------------------------------------------------------- *)
Lemma run_step_sim s1 s2 : W0 s1 s2 -> QS s1 s2 -> DI s1 ->
  orel (fun _ _ => True) (fun t1 t2 => QS t1 t2 /\ DI t1) (run_step s1) (run_step s2).
Proof.
  intros HW HQ HD. unfold run_step. apply orel_mget. rewrite <- (w_step _ _ HW).
  destruct (f_step s1).
  - eapply orel_weaken; [apply (fsim_orel_f QS QS _ _ _ s1 s2 read_block_header_sim HW HQ) | auto |].
    intros t1 t2 _ [Hq Hf]. split; [exact Hq | exact (DI_frame _ _ HD Hf)].
  - eapply orel_weaken; [apply (fsim_orel_f QS QS _ _ _ s1 s2 (read_raw_data_sim QS QS_slot) HW HQ) | auto |].
    intros t1 t2 _ [Hq Hf]. split; [exact Hq | exact (DI_frame _ _ HD Hf)].
  - apply read_block_sim; assumption.
Qed.

(* ---- one iteration of the loop of Read -------------------------------------------------------------------------- *)
(* between calls: related, and while no error is latched the live tables agree and the copy
   invariant holds *)
Definition E (s1 s2 : flst) : Prop := W0 s1 s2 /\ (f_err s1 = None -> QS s1 s2 /\ DI s1).

(* what follows the step: Flush, errWrap, the flush in case of error *)
Definition round_tail (st2 : flst) : flst :=
  let '(short, p') := flush (f_rd st2) in
  let st3 := set_inOff (set_rd st2 p') (p_offset p') in
  let st4 := if short then set_err st3 (Some EEOF) else st3 in
  let st5 := set_err st4 (option_map err_wrap (f_err st4)) in
  match f_err st5, f_toRead st5 with
  | Some _, [] => match read_flush (f_dict st5) with
                  | Ok (bs, d') => set_toRead (set_dict st5 d') bs
                  | Panic => crash st5 EPanic
                  | Hang => crash st5 EFuel
                  | Fuel => crash st5 EFuel
                  end
  | _, _ => st5
  end.

Definition round_start (st : flst) : flst :=
  let p := f_rd st in
  set_rd st (mkPrd (p_src p) (p_buffered p) (p_big p) (p_bufBits p) (p_numBits p)
                   (p_peek p) (p_discard p) (p_fed p) (f_inOff st)).

Lemma one_round_eq st :
  one_round st =
  let '(r, st1) := run_step (round_start st) in
  match r with
  | RThrow e => if crashed e then crash st1 e else round_tail (set_err st1 (Some e))
  | ROk _ => round_tail st1
  end.
Proof.
  unfold one_round, round_tail, round_start. cbv zeta.
  destruct (run_step _) as [r st1]. destruct r as [u|e]; [reflexivity|].
  destruct (crashed e); reflexivity.
Qed.

Lemma crash_sim a b e : W0 a b -> W0 (crash a e) (crash b e).
Proof. intros HW. unfold crash. w0_solve HW. Qed.

Lemma round_tail_sim a b : W0 a b ->
  W0 (round_tail a) (round_tail b) /\
  (f_err (round_tail a) = None ->
   slots_same a (round_tail a) /\ slots_same b (round_tail b) /\ frameA a (round_tail a)).
Proof.
  intros HW. unfold round_tail. rewrite <- (w_rd _ _ HW).
  destruct (flush (f_rd a)) as [short p']. cbv zeta.
  set (a4 := if short then set_err (set_inOff (set_rd a p') (p_offset p')) (Some EEOF)
             else set_inOff (set_rd a p') (p_offset p')).
  set (b4 := if short then set_err (set_inOff (set_rd b p') (p_offset p')) (Some EEOF)
             else set_inOff (set_rd b p') (p_offset p')).
  assert (HW4 : W0 a4 b4) by (unfold a4, b4; destruct short; w0_solve HW).
  assert (HS4 : slots_same a a4 /\ slots_same b b4 /\ frameA a a4).
  { unfold a4, b4. destruct short; (split; [slots_solve|]; split; [slots_solve | frame_solve]). }
  set (a5 := set_err a4 (option_map err_wrap (f_err a4))).
  set (b5 := set_err b4 (option_map err_wrap (f_err b4))).
  assert (HW5 : W0 a5 b5) by (unfold a5, b5; w0_solve HW4).
  assert (HS5 : slots_same a a5 /\ slots_same b b5 /\ frameA a a5).
  { destruct HS4 as ((X1 & X2 & X3 & X4) & (Y1 & Y2 & Y3 & Y4) & (Z1 & Z2 & Z3)). unfold a5, b5.
    split; [repeat split; fl_simpl'; assumption|]. split; [repeat split; fl_simpl'; assumption|].
    split; [fl_simpl'; exact Z1|]. split; [fl_simpl'; exact Z2 | fl_simpl'; exact Z3]. }
  rewrite <- (w_err _ _ HW5), <- (w_toRead _ _ HW5).
  destruct (f_err a5) as [e5|] eqn:Ee.
  - destruct (f_toRead a5) as [|x tr] eqn:Et.
    + pose proof (read_flush_eq CapP CapP_grow _ _ (w_dict _ _ HW5)) as H.
      destruct (read_flush (f_dict a5)) as [[bs1 d1]| | |]; destruct (read_flush (f_dict b5)) as [[bs2 d2]| | |];
        cbn [dres_rel fst snd] in H; try contradiction.
      * destruct H as (<- & HD & _). split; [w0_solve HW5|].
        fl_simpl'. intros C. rewrite Ee in C. discriminate.
      * split; [apply crash_sim; exact HW5 | intros C; discriminate].
      * split; [apply crash_sim; exact HW5 | intros C; discriminate].
      * split; [apply crash_sim; exact HW5 | intros C; discriminate].
    + split; [exact HW5 | intros C; rewrite Ee in C; discriminate].
  - split; [exact HW5 | intros _; exact HS5].
Qed.

Lemma ready_sim s1 s2 : W0 s1 s2 -> ready s1 = ready s2.
Proof. intros HW. unfold ready. rewrite (w_toRead _ _ HW), (w_err _ _ HW). reflexivity. Qed.

Lemma ready_false s : ready s = false -> f_toRead s = [] /\ f_err s = None.
Proof. unfold ready. destruct (f_toRead s); [|discriminate]. destruct (f_err s); [discriminate|]. split; reflexivity. Qed.

Lemma one_round_sim s1 s2 : E s1 s2 -> ready s1 = false -> E (one_round s1) (one_round s2).
Proof.
  intros [HW HE] Hr. destruct (ready_false _ Hr) as [_ Herr]. destruct (HE Herr) as [HQ HD].
  rewrite !one_round_eq.
  assert (HW0 : W0 (round_start s1) (round_start s2)).
  { unfold round_start. rewrite <- (w_rd _ _ HW), <- (w_inOff _ _ HW). w0_solve HW. }
  assert (HQ0 : QS (round_start s1) (round_start s2)).
  { apply (QS_upd s1 s2); [slots_solve | slots_solve | exact HQ]. }
  assert (HD0 : DI (round_start s1)) by (apply (DI_frame s1); [exact HD | unfold round_start; frame_solve]).
  pose proof (run_step_sim _ _ HW0 HQ0 HD0) as H. unfold orel in H.
  destruct (run_step (round_start s1)) as [[u1|e1] t1]; destruct (run_step (round_start s2)) as [[u2|e2] t2];
    try contradiction.
  - destruct H as (_ & HWt & HQt & HDt).
    destruct (round_tail_sim t1 t2 HWt) as [HWr Hnone]. split; [exact HWr|].
    intros Hn. destruct (Hnone Hn) as (S1 & S2 & F). split.
    + apply (QS_upd t1 t2); assumption.
    + apply (DI_frame t1); assumption.
  - destruct H as (<- & HWt). destruct (crashed e1).
    + split; [apply crash_sim; exact HWt | intros C; discriminate].
    + assert (HWe : W0 (set_err t1 (Some e1)) (set_err t2 (Some e1))) by w0_solve HWt.
      destruct (round_tail_sim _ _ HWe) as [HWr Hnone]. split; [exact HWr|].
      intros Hn. exfalso. revert Hn. unfold round_tail.
      destruct (flush (f_rd (set_err t1 (Some e1)))) as [short p']. cbv zeta. fl_simpl'.
      destruct short; fl_simpl'; cbn [option_map];
        (destruct (f_toRead t1); [destruct (read_flush (f_dict t1)) as [[bs d']| | |]|]);
        unfold crash; fl_simpl'; discriminate.
Qed.

Lemma rounds_sim d : forall s1 s2, E s1 s2 -> E (rounds d s1) (rounds d s2).
Proof.
  induction d as [|d IH]; intros s1 s2 HE; cbn [rounds]; rewrite <- (ready_sim _ _ (proj1 HE)).
  - destruct (ready s1) eqn:Er; [exact HE | apply one_round_sim; assumption].
  - destruct (ready s1) eqn:Er; [exact HE|].
    pose proof (IH s1 s2 HE) as H1. rewrite <- (ready_sim _ _ (proj1 H1)).
    destruct (ready (rounds d s1)); [exact H1 | apply IH; exact H1].
Qed.

(* ---- Read ------------------------------------------------------------------------------------------------------- *)
Lemma E_upd s1 s2 t1 t2 : E s1 s2 -> W0 t1 t2 -> f_err t1 = f_err s1 ->
  slots_same s1 t1 -> slots_same s2 t2 -> frameA s1 t1 -> E t1 t2.
Proof.
  intros [HW HE] HWt He S1 S2 F. split; [exact HWt|]. rewrite He. intros Hn. destruct (HE Hn) as [HQ HD].
  split; [apply (QS_upd s1 s2); assumption | apply (DI_frame s1); assumption].
Qed.

Lemma fl_read_sim s1 s2 n : E s1 s2 ->
  fst (fl_read s1 n) = fst (fl_read s2 n) /\ E (snd (fl_read s1 n)) (snd (fl_read s2 n)).
Proof.
  intros HE. unfold fl_read. rewrite <- (ready_sim _ _ (proj1 HE)).
  assert (Hdepth : round_depth s1 = round_depth s2).
  { unfold round_depth. rewrite (w_rd _ _ (proj1 HE)). reflexivity. }
  rewrite <- Hdepth.
  set (a := if ready s1 then s1 else rounds (round_depth s1) s1).
  set (b := if ready s1 then s2 else rounds (round_depth s1) s2).
  assert (HEab : E a b) by (unfold a, b; destruct (ready s1); [exact HE | apply rounds_sim; exact HE]).
  destruct HEab as [HW HEn]. rewrite <- (w_toRead _ _ HW), <- (w_err _ _ HW), <- (w_outOff _ _ HW).
  destruct (f_toRead a) as [|x tr] eqn:Et.
  - destruct (f_err a) as [e|] eqn:Ee.
    + cbn [fst snd]. split; [reflexivity|]. split; [exact HW | intros C; rewrite Ee in C; discriminate].
    + cbn [fst snd]. split; [reflexivity|]. split; [w0_solve HW | fl_simpl'; intros C; discriminate].
  - set (out := firstn n (x :: tr)). set (rest := skipn n (x :: tr)).
    set (a2 := set_outOff (set_toRead a rest) (f_outOff a + zlen out)%Z).
    set (b2 := set_outOff (set_toRead b rest) (f_outOff a + zlen out)%Z).
    assert (HE2 : E a2 b2).
    { apply (E_upd a b); [split; assumption | unfold a2, b2; w0_solve HW | reflexivity | slots_solve | slots_solve
                          | unfold a2; frame_solve]. }
    assert (Herr2 : f_err a2 = f_err b2) by (apply (w_err _ _ (proj1 HE2))).
    destruct rest; cbn [fst snd]; (split; [|exact HE2]); [rewrite Herr2|]; reflexivity.
Qed.

End Sim.
