(* Non-vacuity of the refinement theorems of Flate/ImplThms.v on concrete streams (the model is
   run inside Coq), and the REFUTATION of the full statement by the MinBits witness. *)
From V Require Import Base.Prelude Base.Prog Prefix.ReaderImpl Window.Dict.
From V Require Flate.Spec.
From V Require Import Flate.Impl Flate.ImplThms.

Local Open Scope N_scope.

(* "aaa" then end-of-block in one final fixed-Huffman block, then three garbage bytes *)
Definition ex_fixed : list byte := [75; 76; 76; 4; 0; 9; 9; 9].

Lemma ex_fixed_bytes : bytes_lt256 ex_fixed.
Proof. intros b H. repeat (destruct H as [<-|H]; [reflexivity|]). contradiction. Qed.

(* fresh Reader, ByteReader source, Read sizes 0, 2, 5, 5: the hypotheses of the theorem hold and
   its conclusion is what the run shows: "aaa", io.EOF, InputOffset 5 = bytes used, source at 5 *)
Example refines_bytereader_ex :
  exists st0 obs fin,
    fl_new ex_fixed false [] [] = Ok st0 /\
    fl_run st0 [0; 2; 5; 5]%nat = (obs, fin) /\
    concat_bytes obs = [97; 97; 97] /\ run_err obs = Some EEOF /\
    Flate.Spec.inflate ex_fixed = Flate.Spec.mkIR None [97; 97; 97] 5 /\
    f_inOff fin = 5%Z /\ s_pos (p_src (f_rd fin)) = 5%nat /\ f_outOff fin = 3%Z.
Proof.
  destruct (fl_new ex_fixed false [] []) as [st0| | |] eqn:E0; try (vm_compute in E0; discriminate).
  destruct (fl_run st0 [0; 2; 5; 5]%nat) as [obs fin] eqn:Er.
  exists st0, obs, fin. split; [reflexivity|]. split; [exact Er|].
  assert (Hst : start_state ex_fixed false [] [] st0) by (left; exact E0).
  assert (Hi : Flate.Spec.inflate ex_fixed = Flate.Spec.mkIR None [97; 97; 97] 5) by (vm_compute; reflexivity).
  assert (Ho : concat_bytes obs = [97; 97; 97] /\ run_err obs = Some EEOF).
  { revert Er. vm_compute in E0. inversion E0; subst st0. vm_compute. intros Er. inversion Er. split; reflexivity. }
  destruct Ho as [Ho He].
  destruct (flate_impl_refines_rfc1951_valid ex_fixed false [] [] st0 [0; 2; 5; 5]%nat obs fin
              ex_fixed_bytes Hst Er ltac:(rewrite Hi; reflexivity) EEOF He) as (_ & _ & E3 & E4 & E5).
  rewrite Hi in E3, E4. rewrite Ho in E5. cbn in E3, E4, E5.
  repeat split; assumption.
Qed.

(* the same stream through a BufferedReader that buffers everything at once, one Read of 100 *)
Example refines_buffered_ex :
  exists st0 obs fin,
    fl_new ex_fixed true [100%nat] [] = Ok st0 /\
    fl_run st0 [100]%nat = (obs, fin) /\
    concat_bytes obs = [97; 97; 97] /\ run_err obs = Some EEOF /\
    f_inOff fin = 5%Z /\ s_pos (p_src (f_rd fin)) = 5%nat.
Proof.
  destruct (fl_new ex_fixed true [100%nat] []) as [st0| | |] eqn:E0; try (vm_compute in E0; discriminate).
  destruct (fl_run st0 [100]%nat) as [obs fin] eqn:Er.
  exists st0, obs, fin. split; [reflexivity|]. split; [exact Er|].
  assert (Hst : start_state ex_fixed true [100%nat] [] st0) by (left; exact E0).
  assert (Hi : Flate.Spec.inflate ex_fixed = Flate.Spec.mkIR None [97; 97; 97] 5) by (vm_compute; reflexivity).
  assert (Ho : concat_bytes obs = [97; 97; 97] /\ run_err obs = Some EEOF).
  { revert Er. vm_compute in E0. inversion E0; subst st0. vm_compute. intros Er. inversion Er. split; reflexivity. }
  destruct Ho as [Ho He].
  destruct (flate_impl_refines_rfc1951_valid ex_fixed true [100%nat] [] st0 [100]%nat obs fin
              ex_fixed_bytes Hst Er ltac:(rewrite Hi; reflexivity) EEOF He) as (_ & _ & E3 & E4 & _).
  rewrite Hi in E3, E4. cbn in E3, E4.
  repeat split; assumption.
Qed.

(* ---- the MinBits witness -------------------------------------------------------------------------
   A final dynamic block whose end-of-block code has 15 bits while a length symbol has 2; after
   the header the stream holds <length 3, distance 1> (empty history) and ends. RFC 1951
   decoding (and the Reader over a BufferedReader) reports a corrupted stream; over a ByteReader
   the Reader asks for 15 bits first (hl.MinBits = length of the end-of-block code) and reports
   io.ErrUnexpectedEOF. *)
Definition minbits_witness : list byte := [13;225;1;144;36;73;146;36;73;178;168;121;100;245;236;61;0;0;0;0;0;0;0;0;0;0;0;0;0;0;0;0;0;0;0;0;0;0;0;0;0;0;0;0;0;0;0;0;0;0;0;0;0;0;0;0;0;0;2;0;0;0;0;0;0;0;0;0;0;0;0;0;0;0;0;0;0;0;0;0;0;0;0;0;0;0;0;0;0;0;0;0;0;0;0;0;0;0;0;0;0;0;0;0;0;0;0;0;0;0;0;0;0;0;0;0;0;0;0;0;0;0;0;0;0;0;0;0;0;0;0;0;0;0;0;0;0;60;33;6].

Lemma minbits_witness_bytes : bytes_lt256 minbits_witness.
Proof.
  intros b H. assert (Hb : forallb (fun x => x <? 256) minbits_witness = true) by (vm_compute; reflexivity).
  rewrite forallb_forall in Hb. specialize (Hb b H). apply N.ltb_lt. exact Hb.
Qed.

Lemma minbits_spec : Flate.Spec.inflate minbits_witness = Flate.Spec.mkIR (Some ECorrupted) [] 140.
Proof. vm_compute. reflexivity. Qed.

Lemma minbits_bytereader :
  exists st0 fin, fl_new minbits_witness false [] [] = Ok st0 /\
    fl_run st0 [4096]%nat = ([mkFlobs [] (Some EUEOF) 140%Z 0%Z 140%nat], fin).
Proof.
  destruct (fl_new minbits_witness false [] []) as [st0| | |] eqn:E0; try (vm_compute in E0; discriminate).
  exists st0. vm_compute in E0. inversion E0; subst st0. eexists. split; [reflexivity|].
  vm_compute. reflexivity.
Qed.

Lemma minbits_buffered :
  exists st0 fin, fl_new minbits_witness true [] [] = Ok st0 /\
    fl_run st0 [4096]%nat = ([mkFlobs [] (Some ECorrupted) 140%Z 0%Z 140%nat], fin).
Proof.
  destruct (fl_new minbits_witness true [] []) as [st0| | |] eqn:E0; try (vm_compute in E0; discriminate).
  exists st0. vm_compute in E0. inversion E0; subst st0. eexists. split; [reflexivity|].
  vm_compute. reflexivity.
Qed.

(* the statement without the ByteReader exception is FALSE for the model of the Go code *)
Theorem flate_impl_refines_rfc1951_refuted : ~ flate_impl_refines_rfc1951_statement.
Proof.
  intros H. destruct minbits_bytereader as (st0 & fin & E0 & Er).
  destruct (H minbits_witness false [] [] st0 [4096]%nat _ fin minbits_witness_bytes
              (or_introl E0) Er EUEOF eq_refl) as (_ & _ & C).
  rewrite minbits_spec in C. specialize (C ECorrupted eq_refl). discriminate.
Qed.

Print Assumptions refines_bytereader_ex.
Print Assumptions flate_impl_refines_rfc1951_refuted.
