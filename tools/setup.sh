#!/bin/bash
# MANIFEST.setup_cmd: build the framework from files on disk only (offline).
set -e
R=${VERIF_ROOT:-/verif}
cd $R
export GOFLAGS=-mod=mod GOPROXY=off GOSUMDB=off GOTOOLCHAIN=local CGO_ENABLED=1
export GOCACHE=/verif/.cache/go; [ -d /verif/.cache ] || export GOCACHE=$R/.cache/go
mkdir -p .cache/go bin work evidence replays
# 1. Coq development: full .vo build
cd $R/coq
coq_makefile -f _CoqProject -o Makefile > /dev/null
timeout 3000 make -j16 2>&1 | tail -5
# 2. extraction + driver
cd $R
tools/build_model.sh
# 3. harness (warms the Go build cache)
cp /repo/go.sum harness/go.sum 2>/dev/null || true
cd $R/harness
timeout 900 go build -tags verif -o $R/bin/vh ./cmd/vh
if [ -d cmd/gentables ]; then timeout 600 go build -tags verif -o $R/bin/gentables ./cmd/gentables; fi
echo setup-ok
