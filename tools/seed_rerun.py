#!/usr/bin/env python3
"""Re-run every confirmed seeded change (seeded/<id>/patch.diff) against the quick checks of the
properties recorded for it, update meta.json, and print a table for DESIGN.md section 9."""
import glob, json, os, re, subprocess, sys, time
def sh(cmd, cwd=None, timeout=3000):
    p = subprocess.run(cmd, shell=True, cwd=cwd, stdout=subprocess.PIPE, stderr=subprocess.STDOUT, timeout=timeout)
    return p.returncode, p.stdout.decode("utf-8", "replace")
only = sys.argv[1:]
rows = []
for mf in sorted(glob.glob("/verif/seeded/*/meta.json")):
    meta = json.load(open(mf))
    sid = meta["seed_id"]
    if only and not any(o in sid for o in only):
        rows.append(meta); continue
    props = list(meta.get("checks_run", {}).keys()) or [meta["breaks_property"]]
    rc, o = sh("git -C /repo status --porcelain")
    assert o.strip() == "", "repo not clean"
    patch = os.path.join(os.path.dirname(mf), "patch.diff")
    rc, o = sh("git -C /repo apply %s" % patch)
    assert rc == 0, o
    det = {}
    try:
        for p in props:
            t0 = time.time()
            rc, o = sh("tools/check.py %s --tier quick" % p, cwd="/verif")
            line = [l for l in o.splitlines() if l.startswith("VIOLATION")]
            d = {"exit": rc, "violation_line": line[:1], "wall": round(time.time() - t0)}
            if line:
                m2 = re.search(r"replay=(\S+)", line[0])
                if m2 and os.path.exists(m2.group(1)):
                    rj = json.load(open(m2.group(1)))
                    v = rj.get("violation") or {}
                    d["kind"] = v.get("kind") or ",".join(rj.get("no_longer_checks", []))
                    d["detail"] = (v.get("detail") or "")[:200]
            det[p] = d
    finally:
        sh("git -C /repo checkout -- .")
    meta["checks_run"] = det
    meta["detected_by"] = [p for p, d in det.items() if d["exit"] != 0]
    json.dump(meta, open(mf, "w"), indent=1)
    rows.append(meta)
    print(sid, {p: (d["exit"], d.get("kind")) for p, d in det.items()}, flush=True)
print()
print("| seeded change | breaks | needs | detected by (quick check: oracle that fired) |")
print("|---|---|---|---|")
for m in rows:
    need = (m.get("needs_to_manifest") or "").strip().split("\n")[0][:90]
    det = "; ".join("%s: %s" % (p, d.get("kind") or "violation") for p, d in m["checks_run"].items() if d["exit"] != 0) or "**missed**"
    print("| %s | %s | %s | %s |" % (m["seed_id"], m["breaks_property"], need.replace("|", "/"), det))
