#!/bin/bash
# Extract the Coq models to OCaml and build the driver. Run after `make` in coq/.
set -e
R=${VERIF_ROOT:-/verif}
cd $R/ocaml
rm -f model.ml model.mli
timeout 600 coqc -Q ../coq V ../coq/Extract/Extract.v > extract.log 2>&1 || { cat extract.log; exit 1; }
mkdir -p $R/bin
timeout 900 ocamlfind ocamlopt -w -a -package str model.mli model.ml driver.ml main.ml -o $R/bin/driver
rm -f *.cmi *.cmx *.o
