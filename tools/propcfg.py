"""Per-property texts used in the evidence files."""
PROPS = {}
NOT_YET = {}

PROPS["C16"] = dict(
    rule=("cases: all payloads of length <=1 x 3 modes; sampled (thorough: all) length-2 payloads; "
          "single-block payloads of every bit weight, lengths 0..31, with random write partitions; "
          "XFLATE footers for boundary and random back sizes; long random payloads x partitions; "
          "converse: mutated valid blocks (bit flips in the first 96 bits, any bit, truncation, byte edit, "
          "trailing junk, concatenation) and random strings. Non-trivial = encoder case, or decoder input that "
          "reaches accept/Corrupted/UEOF; distinct by content hash of (bucket, payload, mode)."),
    explanation=("Theorems (Props/C16.v) are about the Gallina model of xflate/internal/meta (encoder as a "
                 "function to bits, decoder as a prog). Every case is run through the real package and through the "
                 "extracted model; writer output is compared byte for byte, reader results by (class, payload, "
                 "final mode, blocks, bytes used). Implementation oracles: round trip through two source kinds, "
                 "compress/flate silence and finality, block size 12..64, <=22 bytes => one block, signature only at "
                 "block starts, ReverseSearch = last block start, split independence, accepted => empty DEFLATE."),
    assumptions=["compress/flate (Go stdlib) is a conforming RFC 1951 decoder (reference only)"],
    level_text=("Theorems about the Gallina model of the meta encoder/decoder (22-byte guarantee and its tightness, "
                "split independence of Write, the Writer never produces an unencodable block) hold for all payloads; "
                "the model is tied to xflate/internal/meta by byte-for-byte correspondence on every run. Round trip, "
                "DEFLATE silence, size bounds and signature uniqueness are currently decided by the correspondence plus "
                "implementation oracles on generated inputs (theorems for them are being added)."
                " Added: LOSSLESS for EVERY payload and final mode (Meta/RoundTrip.v, 35 s to check): whatever block the encoder model produces, the decoder model - started at any byte-aligned position of any stream - returns exactly the payload and the mode and stops exactly at the end of the block; every block is 12..64 whole bytes. The heart is an invariant of the decoder's rolling 8-bit window (never zero on encoder output: a zero run emits at most three one-bit zero symbols before a prefixed symbol). Not proved: the multi-block Writer/Reader loop on top of the single block, DEFLATE-emptiness of the block, and uniqueness of the signature."),
    level_note=("Trusted: Coq kernel, extraction (ExtrOcamlBasic), OCaml driver, Go harness and generators, "
                "compress/flate as reference. Model = code only as far as the sampled correspondence shows."),
)

PROPS["C01"] = dict(
    rule=("cases: every string of <=1 byte and a 1/7 stratified sample of 2-byte strings (thorough: all 2-byte, 1/61 of "
          "3-byte); compress/flate output at levels -2,0..9 with random flushes; zlib output over level/windowBits/"
          "memLevel/strategy/flush modes; bit-level synthesised streams (stored/fixed/dynamic, random complete codes, "
          "single-code trees, repeat codes, padding bits) and the same with one RFC rule broken (12 kinds); mutations; "
          "every truncation of 40 synthesised streams; two large inputs. Non-trivial = accepted, or delivered output, or "
          "longer than 2 bytes; distinct by content hash."),
    explanation=("The RFC 1951 decoder is the Gallina prog Flate.Spec.inflate_prog. Each case runs through flate.Reader, "
                 "the extracted model, compress/flate and zlib. Compared with the model: error class, every delivered byte, "
                 "bytes consumed on success. Implementation oracles: acceptance/output/consumption equal to both references "
                 "(cases where the references disagree with each other are counted as reference-ambiguity), delivered bytes "
                 "prefix-comparable with the references on failure, no over-consumption, OutputOffset exact, no panic."),
    assumptions=["compress/flate and zlib are conforming RFC 1951 decoders (references)"],
    level_text=("Locality theorems (verdict/output/consumption independent of trailing bytes; any cut gives exactly "
                "UnexpectedEOF and a prefix of the output) are proved for the Gallina RFC 1951 decoder for all inputs. "
                "That this decoder is what flate.Reader computes is checked by correspondence on every run (0 disagreements "
                "required) and it is cross-checked against zlib and compress/flate; the table-lookup/window refinement "
                "theorems are layered in Prefix/ and Window/ as they are completed."
                " Added: TOTALITY of the decoder model (Props flate_decoder_total): on every input success, UnexpectedEOF or Corrupted - no panic, no exhausted loop budget (Flate/Safe.v, Flate/Fuel.v)."
                " Added: every tree the decoder accepts decodes exactly the canonical code of RFC 1951 3.2.2 and is complete (flate_tree_decodes_canonical_code, flate_tree_is_complete; Flate/Canon.v: canonical codes fit their lengths, are prefix-free, the trie decodes each code word to its symbol consuming exactly the word), and the header parser's length lists have pairwise different symbols."),
    level_note=("Trusted: Coq kernel, extraction, OCaml driver, Go harness/generators, zlib + compress/flate as references. "
                "The claim 'model = flate.Reader' is sampled, not proved."),
)

_XF_TRUST = ["external: Go compress/flate.Writer answers the model's deflate requests (contract K1: output is a byte-aligned "
             "sequence of non-final blocks after Flush, deterministic, never retracts emitted bytes); compress/flate reader "
             "is modelled by Flate.Spec (contract K2)"]

PROPS["C05"] = dict(
    rule=("histories: every call sequence up to length 3 (thorough: 4) over {Write 0/1/3/chunk/chunk+1 bytes, Flush sync/"
          "full/index/invalid} ending in Close, for 2 (thorough: 5) configurations; random histories up to 40 calls over "
          "random configurations (Level -2,-1,0,1,5,6,9; ChunkSize 1,2,7,16,100,default; IndexSize -1,1,2,3,default); refused "
          "configurations. Non-trivial = any data written or more than one call; distinct by hash of (config, ops)."),
    explanation=("Each history is run on the real xflate.Writer and on the extracted Writer model (the model's compressor "
                 "requests are answered by the real compress/flate). Compared: per-call (count, error class), InputOffset, "
                 "OutputOffset and the sink bytes, byte for byte. Implementation oracles: Close succeeds, xflate.NewReader + "
                 "ReadAll returns the written bytes, Seek(0,End) = length, the same data with different Write splits gives "
                 "the same bytes, offsets exact, invalid flush mode refused."),
    assumptions=_XF_TRUST,
    level_text=("Proved for the Writer model, for every compressor and every call history: OutputOffset equals the bytes "
                "handed to the sink; invalid configurations are refused. The model is tied to xflate.Writer byte for byte on "
                "every run. The general round-trip theorem (Reader model over Writer model output) is exercised by the "
                "correspondence and a concrete witness; its proof is in progress (DESIGN.md C05)."),
    level_note="Trusted: as C16, plus the external compressor contract K1 (runtime-checked by running the real library).",
    trusted_extra=_XF_TRUST,
)
PROPS["C06"] = dict(
    rule=PROPS["C05"]["rule"],
    explanation=("Same histories as C05. Implementation oracles: the sink followed by a 4-byte canary is decoded by "
                 "compress/flate, zlib and this repository's flate.Reader; each must return exactly the written bytes, "
                 "consume exactly the sink and leave the canary; cuts of the sink must be incomplete (final bit only at the "
                 "end). The Writer model is compared byte for byte."),
    assumptions=_XF_TRUST + ["zlib and compress/flate are conforming DEFLATE decoders"],
    level_text=("The RFC 1951 model decodes the real Writer's output completely (witness), a closed writer never appends "
                "(all histories), and a DEFLATE verdict is independent of trailing bytes (all inputs). The general theorem "
                "'every Writer-model output inflates to the written data' needs the compositionality lemma for byte-aligned "
                "non-final block sequences and K1; until it is closed the claim rests on the byte-exact Writer model plus "
                "three independent decoders on every generated history."),
    level_note="Trusted: as C05.",
    trusted_extra=_XF_TRUST,
)
PROPS["C07"] = dict(
    rule=("streams: a 5-chunk stream with an empty chunk and two indexes, a chain of one-record indexes, the empty stream, "
          "a single chunk, random configurations (thorough: plus a 300 KB default-chunk stream). Histories: every Seek/Read "
          "sequence up to depth 3 (thorough: 4) on the first stream and depth 2 on the others over a boundary alphabet "
          "(offsets -1/0/+1 around chunk edges, end+5, 2^40; whence 0..3; Read lengths 0,1,chunk-1,chunk+1,all+3), "
          "random sequences up to 65 calls, and the D1/D2 regression histories. Distinct by hash of (stream, ops)."),
    explanation=("Every history runs on the real xflate.Reader next to a bytes.Reader over the original data (per-call "
                 "oracle: Seek results and refusals, data at the current position, EOF exactly at the end, progress, "
                 "zero-length reads return within 2 s) and on the extracted Reader model (per-op results at ReadFull "
                 "granularity). 40+ further Writer histories are only checked for the theorem's hypothesis (honest_stream). "
                 "Defects D1, D2 were rediscovered by this check before being repaired."),
    assumptions=_XF_TRUST,
    level_text=("THE PROPERTY over all histories is a theorem about the Reader model (Props/C07.v "
                "xr_refines_readseeker_all_histories, XFlate/Refine.v): for every byte string the model opens whose record "
                "table is honest for a content (sorted; every delimited chunk decodes through the Reader's own chunk decoder "
                "to its slice with matching sizes and sync marker - decidable, honestb), EVERY sequence of Seek/Read/Close "
                "calls yields the observations of the ReadSeeker specification sp_run over that content. Proved by a "
                "simulation invariant (cursor: current record, decompressor position, pending discard, logical position) "
                "with the binary search of index.Search proved correct on every sorted table (XFlate/Search.v) and a fuel "
                "bound for the Read loop. Non-vacuous on the witness stream. The hypothesis is evaluated (extracted "
                "honest_stream) on every stream the real Writer produced in this run; the specification itself is run "
                "against the implementation on the random histories (xspec). Also proved for all states: zero-length Read "
                "prompt, refused seeks change nothing, sticky errors; D1 refuted on the pre-repair Seek by a machine-checked "
                "witness. Not proved: that every Writer output is honest (C05's round trip; sampled here), and the model = "
                "code tie (correspondence, 0 disagreements)."),
    level_note="Trusted: as C05.",
    trusted_extra=_XF_TRUST,
)

_RD_EXPL = ("Decoders: flate, brotli, bzip2, meta (and xflate.Reader where stated). Valid streams from compress/flate, zlib, "
            "bit-level synthesis, libbrotlienc (quality/lgwin/mode/lgblock/NPOSTFIX/NDIRECT/flush/metadata), libbz2 incl. "
            "concatenated streams, meta.Writer. ")
PROPS["C09"] = dict(
    rule=("per codec: valid streams; every proper prefix of short streams (64 sampled cuts + ends for long ones) under a random "
          "source kind and schedule; 12 mutations per stream; a source that fails with a sentinel error at every position "
          "(sampled for long streams) for Read-only, ReadByte and Peek/Discard sources; xflate containers truncated/mutated. "
          "After the first error: two more Reads and Close. Distinct by hash of (input, cut/fault position)."),
    explanation=(_RD_EXPL + "Implementation oracles: cut => exactly io.ErrUnexpectedEOF (bzip2: a cut exactly between streams "
                 "is acceptance; meta: a cut between blocks is a clean EOF) and delivered bytes a prefix of the plaintext; "
                 "malformed => class in {EOF, UnexpectedEOF, Corrupted, Deprecated}; failing source => the sentinel itself; "
                 "sticky error; Close nil iff EOF. flate cases are also compared with the extracted RFC 1951 model."),
    assumptions=["libbrotli, libbz2, zlib, compress/flate produce valid streams (generators)"],
    level_text=("Proved for the Read wrapper over every decoder program: the reported error is the decoder's outcome, is "
                "reported only after everything decoded was delivered, is sticky, and Close returns nil exactly after EOF; "
                "for the RFC 1951 model every cut of an accepted stream gives exactly UnexpectedEOF with a prefix of the "
                "output. For brotli/bzip2 the same locality theorem applies once their models are instantiated (eof-free "
                "programs); error-class containment and verbatim source errors are decided by the implementation oracles."
                " Added: the error classes of the three decoder models are proved for every input (flate_error_classes, brotli_error_classes, bzip2_error_classes): only UnexpectedEOF, Corrupted (bzip2: or Deprecated)."),
    level_note="Trusted: Coq kernel, extraction, driver, Go harness, reference encoders. Model = code sampled.",
)
PROPS["C10"] = dict(
    rule=("per codec: valid and mutated streams x 11 source kinds (bytes.Reader, bytes.Buffer, strings.Reader, bufio 16/4096, "
          "bufio over a 1-byte-per-Read source, ReadByte-only, a randomly fragmenting BufferedReader, Read-only, one byte per "
          "Read, data-with-EOF) x 5 schedules (1, 7, 4096, 1 MiB, random with 30% zero-length); quick runs a third of the "
          "combinations. Baseline: bytes.Reader with 4096-byte reads."),
    explanation=(_RD_EXPL + "Implementation oracles: for accepted streams identical bytes and EOF under every driver; for "
                 "rejected streams prefix-comparable bytes and the same error class; per-call contract (n <= len, "
                 "OutputOffset, progress, sticky error, Close). flate baseline compared with the extracted model."),
    assumptions=[],
    level_text=("Proved for the Read wrapper over every decoder program and every schedule of buffer lengths (zero allowed): "
                "delivered bytes are always a prefix of the one-shot output, a schedule that ends in an error has delivered "
                "exactly the one-shot output and reports the one-shot outcome, zero-length reads lose nothing. Independence "
                "from the source's shape rests on the bit-reader layer (Prefix/BitReader, in progress) and on the oracle runs "
                "over 11 source kinds."
                " Added for xflate.Reader: on an honest stream sequential reading with any sequence of buffer lengths (zero included) delivers the prefix of the content of the total length asked (xflate_sequential_reads_any_buffer_sizes, corollary of the C07 refinement)."
                " Added: the implementation-level model of prefix.Reader refines the abstract bit stream for EVERY script of the source's freedoms (how much more than asked a BufferedReader buffers, how much a raw Read returns) and for a ReadByte-only source (Prefix/ReaderThms.v): the values read do not depend on the source's shape. The model is run against the real prefix.Reader over scripted sources in the C20 check."),
    level_note="Trusted: as C09.",
)
PROPS["C11"] = dict(
    rule=("per codec: valid streams followed by 0..64 random trailing bytes x exact source kinds (bytes.Reader, bytes.Buffer, "
          "strings.Reader, bufio, ReadByte-only, custom BufferedReader except for brotli) x schedules; gated sources: "
          "compress/flate and zlib streams with sync/full flushes read through a ByteReader and a BufferedReader that expose "
          "only the flushed prefix and record the first request beyond it."),
    explanation=(_RD_EXPL + "Implementation oracles: result unchanged by the trailer, InputOffset = stream length, trailer "
                 "left unread (bzip2: InputOffset = total input, trailing garbage not accepted silently), OutputOffset after "
                 "every Read, all flushed data delivered before any request beyond the flush point."),
    assumptions=[],
    level_text=("Proved: for every eof-free decoder program (the RFC 1951 model is one) verdict, output and consumed length are "
                "independent of trailing bytes; consumption is a prefix of the source; OutputOffset equals bytes delivered "
                "after every Read for every schedule. That the Go bit readers pull no more bytes than the model's bit "
                "position is checked by the oracle runs (InputOffset and leftover), not yet by a theorem."
                " Added: for the implementation-level model of prefix.Reader, after a Flush the source has been advanced over exactly the bytes that hold the bits read, for every data, bit order, source script and history of ReadBits/ReadPads/raw Read/Flush, on both source paths (Prefix/ReaderThms.v); BitsRead is the abstract position after every operation."),
    level_note="Trusted: as C09.",
)

PROPS["C03"] = dict(
    rule=("inputs: libbz2 and bzip2.Writer output at levels 1-9 (empty, runs of 1..300 equal bytes, 1..256-symbol alphabets, "
          "text, random); bit-level synthesised streams with checksums computed by the generator (2-6 trees, arbitrary "
          "selectors incl. more than needed, code lengths 1-20 incl. over/under-subscribed trees, RUNA/RUNB runs, RLE1 counts "
          "0..255 incl. zero count followed by the same byte, sparse symbol maps, origin-pointer edges, empty blocks, 14 "
          "kinds of injected error); concatenations; mutations; every truncation of short synthesised streams; 30 targeted "
          "block-limit / run-limit / RLE1-edge streams (100000-byte blocks). Non-trivial = accepted, or output delivered, "
          "or longer than a header; distinct by content hash."),
    explanation=("Each input runs through bzip2.Reader, libbzip2 (restarted per stream, via cgo) and the extracted decoder "
                 "model. Oracles: acceptance and output equal to libbzip2 (inputs refused as Deprecated are the permitted "
                 "divergence), delivered bytes prefix-comparable on failure, InputOffset = total input, class in "
                 "{UnexpectedEOF, Corrupted}. Model comparison: class and every delivered byte, also on failures. The model "
                 "(written by a sub-agent from libbzip2's decompress.c / huffman.c) was separately validated against libbz2 "
                 "on 22,000 inputs incl. 2,600 degenerate-tree streams and stage by stage against the Go helpers."),
    assumptions=["libbzip2 1.0.8 is the reference", "bit-level generator computes correct checksums (cross-checked by libbzip2 accepting its valid outputs)"],
    level_text=("The decoder is an executable Gallina port of libbzip2 (incl. limit/base/perm decoding of arbitrary length "
                "vectors); bzip2.Reader is tied to it byte for byte on every run and both to libbzip2. Proved: the generic "
                "Read-wrapper theorems instantiated for this program (schedule independence, error = decoder outcome) and "
                "concrete multi-stream / cut witnesses. The stage-equivalence theorems of DESIGN.md (RLE1, MTF/RLE2, BWT "
                "inversion, degenerate trees) are not yet proved: that part is differential testing against libbzip2."
                " Added: TOTALITY of the bzip2 decoder model (Props bzip2_decoder_total; Bzip2/Safe.v): on every input success, UnexpectedEOF, Corrupted or Deprecated; no loop budget is exhausted (the code-length, block and stream loops consume input in every continuing iteration; the symbol loop is bounded by the block size)."),
    level_note="Trusted: Coq kernel, extraction, driver, harness, libbzip2 as reference. Model = code sampled.",
)
PROPS["C04"] = dict(
    rule=("inputs x levels 1-9: empty, embedded runs of 1..300 equal bytes, small and full alphabets, text/random up to 3 KB, "
          "Fibonacci frequency profiles of 22-33 symbols (optimal code deeper than 20 bits), runs of 1..300 equal bytes "
          "placed at offsets -6..+5 around the level*100000 block limit (level 1; thorough: 1,2,3,9), a 250 KB multi-block "
          "input; each with 2 random Write partitions incl. zero-length writes; refused levels -100,-1,10,11,100."),
    explanation=("Oracles on bzip2.Writer: output accepted and decoded to the input by libbzip2 (one stream, all bytes "
                 "consumed), Go compress/bzip2 and bzip2.Reader; identical bytes for every partition; offsets exact; bad "
                 "levels refused. The extracted encoder model must produce the same bytes (byte for byte) for the small, "
                 "Fibonacci and selected block-limit inputs."),
    assumptions=["libbzip2 and compress/bzip2 are the reference decoders"],
    level_text=("bzip2.Writer is reproduced byte for byte by the Gallina encoder model (RLE1 block rules, BWT as sorted "
                "rotations, MTF/RLE2, length-limited Huffman incl. the uint32 tree rotation, selectors, delta-coded lengths). "
                "Proved so far: round trips through encoder and decoder models on concrete inputs (text, empty, long runs). "
                "The universal round-trip theorem needs the stage inverses (RLE1, MTF/RLE2, Huffman, BWT inversion); until "
                "they are proved the universal claim rests on the correspondence plus three independent decoders."
                " Added: stage 1 for EVERY input and block size (Bzip2/Rle1.v): the block stored by the Writer's run-length stage with its block-full rules expands, by the Reader's stage, to exactly the input consumed, CRC registers agree, the block fits, progress, the decoder never ends in the rejected four-bytes-no-count state; the block loop is a fold over these blocks and their expansions concatenate to the input. Stages 2-4 (BWT, MTF/RLE2, Huffman) are not proved."
                " Added: stage 3 for EVERY input (Bzip2/MtfRle2.v): the Reader's MTF / zero-run decoder inverts the Writer's encoder for every value list and every dictionary containing the values, with the exact side condition (4194303 equal bytes are refused), all symbols fit the alphabet, and the Writer's own block dictionary meets the hypotheses."),
    level_note="Trusted: as C03; SA-IS (bzip2/internal/sais) is not modelled: the model sorts rotations, the BWT stage is compared with the code's output.",
)

PROPS["C02"] = dict(
    rule=("inputs: every string of <=1 byte and a 1/37 sample of 2-byte strings (thorough: all 2-byte, 1/997 of 3-byte); "
          "libbrotlienc output over quality 0-11 x lgwin 10-24 x mode x lgblock x NPOSTFIX/NDIRECT x flush and metadata "
          "operations on structured plaintexts; streams crafted at the bit level by a generator that mirrors decoder state "
          "(simple codes of every shape, HSKIP, repeat-code accumulation, many block types with type codes 0/1, context "
          "maps with RLE and inverse MTF, all short distance codes, window-boundary distances, metadata/uncompressed/"
          "empty meta-blocks) with and without injected violations; every transform x word lengths 4,5,9,16,24 (quick: a "
          "third); mutations; every truncation of 6 short streams; the D9 regression inputs."),
    explanation=("Each input runs through brotli.Reader, libbrotlidec (cgo) and the extracted RFC 7932 model (dictionary "
                 "taken from libbrotlicommon, compared with brotli's copy on every run). Oracles: acceptance, output and "
                 "consumed bytes equal to libbrotli; on failure delivered bytes prefix-comparable with libbrotli and a "
                 "prefix of what the model delivers (the model is the reference for 'which bytes may precede a failure'); "
                 "accepted inputs are also compared with the model exactly. The model was validated by its author agent "
                 "against libbrotli on 455,000 inputs (105,000 valid) with no disagreement."),
    assumptions=["libbrotli 1.0.9 is the reference decoder/encoder"],
    level_text=("Proved for the RFC 7932 decoder model, for every dictionary and every input: it reads its source strictly "
                "bit by bit (no end-of-source test), hence verdict/output/consumption are independent of trailing bytes and "
                "every cut of an accepted stream yields exactly UnexpectedEOF with a prefix of the output; the RFC-derived "
                "range/offset tables equal the implementation's (kernel-checked). That brotli.Reader computes this model is "
                "checked by correspondence (0 disagreements required) and against libbrotli on every run; the LUT/window/"
                "resumable-state refinement theorems of DESIGN.md are not proved."
                " Added: TOTALITY of the RFC 7932 decoder model for every dictionary and input (Props brotli_decoder_total; Brotli/Safe.v: last distances stay positive, so no window copy is out of range; Brotli/Fuel.v: every loop budget suffices - the command loop by the measure bytes-still-to-produce + input bits left, with the invariant that the last distances never exceed max 16 (min window bytes_produced), so a command that reads no bit cannot reference an empty dictionary word)."),
    level_note="Trusted: Coq kernel, extraction, driver, harness, libbrotli as reference. Model = code sampled.",
)
PROPS["C08"] = dict(
    rule=("hostile inputs: XFLATE indexes declaring 2^20..2^62 records, footers with back sizes up to 2^63-1 and negative, "
          "a chain of 300 empty indexes, a record with raw size 2^50; brotli: WBITS=24 empty stream, MLEN/ILEN of 16 MiB from "
          "12 bytes, MSKIPLEN 2^24 without data, large-window header fuzz, a 200 KB zero bomb, crafted streams with "
          "injected violations; bzip2: 32767 selectors, synthesised streams with degenerate 20-bit trees, runs of 2^20, a "
          "3 MB zero bomb; flate: 3 MB zero bomb, 60 rule-breaking synthesised streams; meta mutations; plus 250 (thorough: "
          "6000) random strings / mutated valid streams per decoder. Each decoder family runs in a child process under "
          "ulimit -v 3 GB and a wall-clock limit; xflate inputs are opened, sought (2^40, 0, 7) and read."),
    explanation=("Oracles: the child survives (no panic escapes, no OOM kill, no hang), time <= 3 ms x (input + delivered bytes) "
                 "+ 2 s, cumulative allocation <= 96 MiB + 64 x (input + delivered bytes). Rediscovers D3 on the pre-repair "
                 "tree (child killed by the memory limit on a 43-byte input)."),
    assumptions=["allocation totals (runtime.MemStats.TotalAlloc) are a proxy for memory demand"],
    level_text=("Partial by nature. Proved about the models: the XFLATE index loop appends at most |payload|/2 records "
                "whatever the declared count (the pre-repair loop is refuted: n records from an empty payload, for every n), "
                "every VLI read consumes input, a Read never returns more than the buffer. Termination of the models is by "
                "construction (structural recursion / bounded loops). Go runtime memory, stack and time are measured on "
                "generated hostile inputs, not proved; 'no panic' for the real code is the oracle's observation."
                " Added: all three decoder models are TOTAL (flate_decoder_terminates_without_panic, brotli_decoder_terminates_without_panic, bzip2_decoder_terminates): every input ends in success or one of the permitted error classes, with the loop budgets the models themselves choose; what is proved is the logic - wall time and allocation of the Go code are measured by the harness."),
    level_note="Trusted: as C09; the Go runtime (allocator, GC, scheduler) is outside every model.",
)
PROPS["C12"] = dict(
    rule=("xflate.Writer histories (random configurations and call sequences; NoCompression level with user data containing "
          "a complete nested XFLATE stream and meta-block look-alikes) and bzip2.Writer outputs: every cut position for "
          "outputs <= 2 KiB (otherwise +-2 around flush points and 300 sampled cuts); every point at which a Flush returned."),
    explanation=("Oracles: at each flush point compress/flate and zlib recover everything written before it; each cut fed to "
                 "compress/flate, zlib (xflate output) and libbz2, compress/bzip2, bzip2.Reader (bzip2 output) delivers a "
                 "prefix of the original and does not report success; xflate.NewReader on a cut either fails or a full read "
                 "returns exactly the original. Complete outputs are decoded by the extracted RFC 1951 model; bzip2 cuts by "
                 "the extracted decoder model."),
    assumptions=_XF_TRUST,
    level_text=("Proved: any cut of a stream the RFC 1951 model accepts gives exactly UnexpectedEOF and a prefix of the output "
                "(all inputs); bytes delivered before a cut stay delivered when more input arrives (all eof-free decoder "
                "programs, incl. the brotli and flate models); all 115 cuts of a real xflate.Writer output checked inside "
                "the kernel. The xflate-open clause ('fails or serves the original') inherits the C15 weakness and is "
                "decided by the oracle on generated histories only; bzip2 cuts: witness + oracle."
                " Added: xflate.Writer only appends - the sink after a prefix of the calls is a prefix of the sink after all of them, for every compressor behaviour (XFlate/Mono.v), so the output at the moment a Flush returned IS a cut of the final output."),
    level_note="Trusted: as C05.",
    trusted_extra=_XF_TRUST,
)
PROPS["C13"] = dict(
    rule=("writers bzip2, xflate, meta x 6 (thorough: 60) write/flush schedules incl. multi-KB writes x every byte position "
          "0..len(output) at which the sink fails (outputs <= 1.5 KiB; else call boundaries +-2 and 200 sampled) x {error "
          "with zero count, short count with error} x {once, permanent}; after the schedule: Write, Flush, Close, Close."),
    explanation=("Oracles: the failing call or a later one returns non-nil; from the first non-nil return every call fails "
                 "and Close is never nil; Close nil => the sink decodes (libbz2 / compress/flate / meta.Reader) to everything "
                 "accepted; bytes received are a prefix of the fault-free output; InputOffset/OutputOffset after every call. "
                 "A fifth of the histories (thorough: all) are replayed on the extracted latch model with the sink Write "
                 "sizes of the fault-free run: per-call error classes, OutputOffset and sink length must agree."),
    assumptions=["a sink that returns a short count without an error violates io.Writer and is outside the property"],
    level_text=("Proved for the error-latch discipline shared by the three Writers, for every fault plan, every emission "
                "profile and every call history: a sink failure is reported by the call in progress, stays reported by every "
                "later call, Close returns nil only if the sink never failed, OutputOffset = bytes the sink accepted, "
                "InputOffset = bytes reported accepted; the pre-repair bzip2 Close is refuted by a machine-checked witness. "
                "What each call emits is a parameter of the model (taken from the real encoder at run time)."
                " Added: xflate.Writer's sink content before any call is a prefix of its content afterwards (XFlate/Mono.v), for every compressor behaviour and call sequence."),
    level_note="Trusted: as C09. The model abstracts the encoders to their sink-write sizes.",
)
PROPS["C14"] = dict(
    rule=("Readers flate/brotli/bzip2/meta: pool of 6 streams (valid short/long, corrupt, truncated, empty, another valid) x "
          "every history of length <= 2 (thorough: 3) over {nothing, Read 0/1/10/700, ReadAll, Close, ReadAll+Close, "
          "Reset(pool i)} then Reset(target) and ReadAll, for every target in the pool; xflate.Reader: pool of 6 x 7 x 7 "
          "two-step histories; Writers bzip2/xflate/meta: 7 x 7 two-step histories x {healthy, faulty first sink} x 3 payloads."),
    explanation=("Oracle: bytes, final error class, InputOffset and OutputOffset (sink bytes for writers) of the reused object "
                 "equal those of a freshly constructed one. Rediscovered D4 before its repair."),
    assumptions=[],
    level_text=("Proved: at the level of what determines a Reader's future output (pending bytes, error latch, remaining "
                "source) the repaired Reset equals construction and is independent of history, and the pre-repair "
                "bzip2.Reader.Reset is refuted for every state with pending bytes. Non-interference of the carried "
                "allocations (window contents, decoder tables) is not yet a theorem (DESIGN.md C_noninterf); it is decided by "
                "the exhaustive short-history oracle."),
    level_note="Trusted: as C09.",
)
PROPS["C15"] = dict(
    rule=("valid 1-4 chunk streams assembled from parts (real compress/flate chunks, indexes and footers built with "
          "meta.Writer) x 24 tampering operators: record sizes shifted between records, totals, CRC, back size, footer "
          "magic/final bits, chunk swaps with/without records, back-references across a chunk start, embedded final blocks "
          "(empty stored, stored overrunning the chunk by 5, fixed Huffman), non-final overrun, record count, index final "
          "mode, trailing payload, trailing/leading bytes, nested stream, zero-size chunk, missing sync marker, random "
          "mutation; chained indexes with tampered back sizes; the D7 witness family."),
    explanation=("For every string xflate.NewReader accepts and reads to EOF: compress/flate and zlib must accept the whole "
                 "string with the same content. The extracted Reader model must agree with the implementation on acceptance "
                 "and content of every case, and classifies accepted-but-different cases: only those where a DEFLATE block "
                 "with the final bit starts inside a data chunk are the known finding."),
    assumptions=_XF_TRUST,
    level_text=("The property is FALSE on the current design and the development proves so: C15_refuted / "
                "C15_statement_is_false exhibit a 53-byte string (built with the real meta.Writer) that the Reader model "
                "accepts with 9 bytes of content while the RFC 1951 model stops inside the first chunk. Recorded as a known "
                "finding (no small sound repair). The partial theorem for chunks without final blocks is not yet proved; "
                "such cases are decided by the oracle with three decoders."),
    level_note="Trusted: as C05.",
    trusted_extra=_XF_TRUST,
)
PROPS["C17"] = dict(
    rule=("streams: 180 chunks of 5 bytes with an index every 3 chunks and two empty chunks, 50 chunks with one index, 30 "
          "chunks with one-record chained indexes (thorough: plus 625 chunks of 64 bytes); for each: the open, then 60 "
          "(thorough: 600) requests Seek(p); ReadFull(n) with random, backward and repeated positions."),
    explanation=("A counting ReadSeeker records every byte range the implementation reads. Opening: every range must lie in "
                 "the footer tail or an index block (the model's log for the same open) and the total must not exceed their "
                 "sizes. Each request: every range read must lie in the chunks the Reader model opens for the same request "
                 "history (or the chunk that was current), and the bytes fetched must not exceed their compressed sizes."),
    assumptions=_XF_TRUST,
    level_text=("Proved for the Reader model: a Seek appends at most one range to the I/O log and it is the compressed span of "
                "one index record; refused seeks and zero-length reads touch nothing. The implementation's actual reads are "
                "checked for inclusion in the model's log on every run. Total-cost bounds over whole request sequences are "
                "by inclusion checking, not yet a theorem."
                " Added over all histories on honest streams (XFlate/Locality.v): a Seek reads at most the compressed extent of the one record whose raw range holds the (clamped) target; a Read of n bytes at logical position lp reads only extents of records after the current one that start strictly before lp+n (or the empty end-of-data extent); every access after opening is a record extent. The opening cost (footer + index blocks) is covered by the oracle and the I/O log comparison, not by a theorem."),
    level_note="Trusted: as C05; bufio's 4 KiB read-ahead inside xflate's flateReader is bounded by the LimitedReader (observed, not modelled).",
    trusted_extra=_XF_TRUST,
)
PROPS["C18"] = dict(
    rule=("Writers bzip2/meta: every sequence up to length 4 (thorough: 5) over {Write 0/1/40 bytes, Close, Reset}; xflate: "
          "up to length 3 (4) over the same plus Flush sync/full/index/invalid; Readers flate/brotli/bzip2/meta: every "
          "sequence up to length 4 (5) over {Read 0/1/7/100000, Close, Reset}; xflate.Reader: plus Seek(3), Seek(0,End), "
          "Seek(-1); 100 random sequences of 5-40 calls per type."),
    explanation=("Oracles: no panic; a second Close after a successful one returns nil; after a successful Close no byte "
                 "reaches the sink, Write/Flush fail, and the stream decodes to what was accepted; a Reader closed after EOF "
                 "returns an error and no data from Read and Seek; Reset revives. xflate Writer/Reader histories without "
                 "Reset are also replayed on the extracted models."),
    assumptions=[],
    level_text=("Proved for the models, for all states: a closed Writer is inert (xflate model over any compressor; the "
                "generic latch model), Close is idempotent, a closed Reader refuses Read and Seek, the stream Readers' Close "
                "returns nil exactly after EOF. 'No panic' of the Go code is the oracle's observation on exhaustive short "
                "histories."),
    level_note="Trusted: as C09.",
)
PROPS["C19"] = dict(
    rule=("24 jobs per round (3 each of flate/brotli/bzip2/meta/xflate Readers: read, Reset to a corrupted stream, Reset "
          "back; bzip2/xflate/meta Writers: write, flush, close, Reset, rewrite) started simultaneously on separate "
          "goroutines, 6 rounds (thorough: 60), under the Go race detector; a SHA-256 of every package-level table "
          "(fixed Huffman coders, selector coders, brotli LUTs and dictionary, meta coders, ReverseLUT) before/after."),
    explanation=("Oracles: each job's digest of everything observable equals its result when run alone; the shared-table "
                 "digest never changes; the race detector reports nothing (its log is parsed by the check)."),
    assumptions=["the Go race detector finds races only on the interleavings that occur"],
    level_text=("Partial by nature. Proved: for any two deterministic step machines over one read-only table value, every "
                "interleaving of their calls gives each instance exactly the observations and final state of running alone; "
                "all Reader/Writer models here are such machines. The absence of unsynchronised memory access in the Go "
                "code cannot be expressed in a Gallina model; it is looked for by the race detector and by the table digest."),
    level_note="Trusted: Go race detector, the digest hooks (verif-tagged).",
)
PROPS["C20"] = dict(
    rule=("all count vectors over alphabets of 1..5 (thorough: 6) symbols with counts 0..4 x limits ceil(log2 n)..27 (quick: "
          "a subset of limits); Fibonacci, powers-of-two, all-zero, all-equal, near-2^32 and random profiles up to 704 "
          "symbols; for each code: every symbol plus random fields written and read back in both bit orders through 8 "
          "source kinds; 300 (thorough: 10000) random scripts of symbols, fields of 1..57 bits, pads and raw byte runs incl. "
          "the D5 call order."),
    explanation=("Oracles on internal/prefix: GenerateLengths returns nil, lengths in 1..limit, Kraft sum exactly one, no "
                 "longer code for a more frequent symbol (when counts sum below 2^32), single symbol => length 0, unsorted "
                 "input refused; GeneratePrefixes result passes the package's own prefix/canonical checks; Writer->Reader "
                 "round trip. GenerateLengths and GeneratePrefixes are compared with the extracted models (incl. the uint32 "
                 "wrap-around of node weights and of the length histogram)."),
    assumptions=[],
    level_text=("Proved: bit fields written LSB-first are read back unchanged at any stream position (all widths, values); "
                "GeneratePrefixes refuses degenerate input; a kernel-checked finite sweep (alphabets 2..4, counts 0..3, "
                "limits up to 5 and 27) shows lengths within the limit, complete and monotone. The unbounded Kraft/limit/"
                "monotonicity theorems and the table-decoder correctness are not yet proved; beyond the sweep they are "
                "decided by the oracle and the byte-exact models."
                " Added: (1) the implementation-level model of prefix.Reader (64-bit buffer, wide loads with look-ahead bits, Peek/Discard bookkeeping, ByteReader path, Flush, raw Read after repair D5) REFINES the abstract bit stream for every data, both bit orders, every source script and every history (Prefix/ReaderImpl.v, ReaderSpec.v, ReaderThms.v - 1000 lines, invariant: the buffer is bit for bit a sub-pattern of the stream window at the read position, so re-loading bytes over their own look-ahead copy is harmless); the model is run against the real Reader over scripted sources on every run (primpl, incl. PullBits over-pulls) and the specification is evaluated on those runs (prspec). (2) canonical codes for every length assignment with Kraft sum <= 1 fit their lengths and are prefix-free (Flate/Canon.v). Not proved: that GenerateLengths always yields such an assignment within the limit (finite sweep + oracle), and the Writer side of bit I/O."),
    level_note="Trusted: as C09.",
)


# ---- theorems added in the third session (appended to the level texts) -------------------------
def _add(p, txt):
    PROPS[p]["level_text"] += " " + txt

_add("C01", "Added: the loop budget is irrelevant (any budget >= the one inflate picks gives the same run: Base/DepthThms.v, "
     "Flate/Depth.v) and decoding is independent of older history (what a stream decodes to on its own it decodes to on top "
     "of any prior output at any byte-aligned position: Flate/Compose.v); sequences of complete non-final blocks compose with "
     "each other and with a following complete stream (scan_app, scan_then_stream).")
_add("C04", "Added: stage 2 for EVERY block - the Reader's inverse BWT inverts the Writer's transform, periodic blocks "
     "included (Bzip2/Bwt.v, proof through sortedness/uniqueness of the rotated list, no case split on ties), stages 2+3 "
     "chained as encode_block/decode_block use them (bwt_mtf_roundtrip), and stage 4's code tables: for EVERY count table "
     "the lengths the Writer assigns are within 1..20, complete, and accepted by GeneratePrefixes with a valid canonical code "
     "(Bzip2/LengthsOfCounts.v on top of Prefix/GenLengthsThms.v). Still open: the prefix coding of the symbols/selectors "
     "and the whole-stream composition.")
_add("C06", "Added: for EVERY payload and mode the RFC 1951 decoder model reads a meta block - at any position, after any "
     "history, followed by anything - as ONE dynamic-Huffman block with no output ending exactly at the block end, final bit "
     "iff FinalStream (Meta/Deflate.v); whole index payloads are sequences of complete non-final blocks, a FinalStream "
     "payload a complete empty stream (Meta/DeflateStream.v); such sequences compose (Flate/Compose.v). The contract K1 on "
     "compress/flate output after a Flush (a sequence of complete non-final blocks for exactly the data, ending in the sync "
     "marker; XFlate/RoundTripStmt.v) is evaluated by the extracted model on every chunk the real compressor produces (xk1).")
_add("C13", "Added: an implementation-level model of prefix.Writer (64-bit buffer, 512-byte staging buffer incl. "
     "`cntBuf -= cnt` after a short write, PushBits' wide store, bit reversal, Flush, raw Write, Try* variants; "
     "Prefix/WriterImpl.v) run against the real Writer over scripted sinks that fail with short counts once or for ever "
     "(WBITW), with theorems for ANY sink and history: Offset always equals the bytes the sink accepted; a sink error is "
     "the outcome of the operation during which it happened; up to and including the first failure the sink holds a prefix "
     "of the fault-free stream. Also proved what does NOT hold at that layer (after a short write a later Flush reports "
     "success over duplicated bytes) - which is why every Writer above must latch the first error, as the latch model "
     "requires.")
_add("C16", "Added: whole payloads of any length round-trip through Writer and Reader models (Meta/Stream.v; the Writer "
     "never fails on bytes; <= 22 bytes give one block); every block is an empty DEFLATE block for the RFC 1951 model "
     "(Meta/Deflate.v); ReverseSearch returns exactly the start of a trailing block: the magic matches at the block's first "
     "byte and at no later offset, header zero runs, body, trailer and zero extension included (Meta/Search.v). Not proved: "
     "the converse (everything the decoder accepts is an empty DEFLATE block) - decided by the oracle.")
_add("C20", "Added: (3) GenerateLengths for EVERY frequency table (counts ascending, >= 2 distinct symbols, n <= 2^maxBits, "
     "uint32 weight wrap-around included): never a panic, lengths in 1..maxBits, Kraft sum exactly one, non-increasing "
     "along ascending counts - the treeRotate length limiting with its transient uint32 underflow is covered "
     "(Prefix/GenLengthsThms.v, 1400 lines); (4) GeneratePrefixes accepts exactly the sorted non-zero complete assignments "
     "and returns the bit-reversed canonical code, prefix-free and complete in reading order, and the pipeline composes "
     "(Prefix/GenPrefixesThms.v, GenPipelineThms.v); (5) the bit WRITER's implementation-level model refines the abstract "
     "bit list and Writer-then-Reader at the implementation level returns every value written, both bit orders, both source "
     "paths, every source script (Prefix/WriterThms.v). Model limits found by the proofs: gen_lengths is only faithful "
     "for distinct symbols (the harness uses distinct symbols); GeneratePrefixes panics in Go for lengths > 27 where the "
     "model has no panic outcome (no caller reaches it).")

_add("C05", "Added (third session): THE PROPERTY FOR EVERY HISTORY - xflate_roundtrip (XFlate/RoundTripAll.v, composition in "
     "XFlate/RT*.v, 7 files by a proof sub-agent from statements fixed beforehand in XFlate/RoundTripStmt.v): for every "
     "compressor satisfying contract K1, every accepted configuration and every successful sequence of Write / Flush (three "
     "modes; invalid modes refused without effect) / Close, the sink is opened by the Reader model with a record table that "
     "is honest for the concatenation of the data written; with the C07 refinement every Seek/Read/Close history then "
     "behaves as a ReadSeeker over that data (xflate_written_streams_read_back). Ingredients: Writer invariant (the sink is a "
     "list of segments = chunks + index block), uvarint/CRC/index payload round trip, meta stream round trip, ReverseSearch "
     "finds the footer, the backward index walk, meta blocks as empty DEFLATE blocks. Size premises: sink < 2^40 bytes (the "
     "meta decoder MODEL's loop budget), data < 2^62. K1 is evaluated by the extracted model on every chunk the real "
     "compress/flate produces (xk1).")
_add("C06", "Added: THE PROPERTY FOR EVERY HISTORY - xflate_is_deflate (XFlate/RoundTripAll.v): under K1 the sink after a "
     "successful Close, for any configuration and schedule, is ONE complete DEFLATE stream for the RFC 1951 model, decoding "
     "to exactly the data written, consumed to the last byte; no size premise.")
_add("C01", "Added: the sliding window at implementation level (Window/Dict.v mirrors flate/dict_decoder.go incl. lazy growth, "
     "wrap-around, both phases of WriteCopy, TryWriteCopy, recycled buffers; run against the real dictDecoder on scripted "
     "histories incl. out-of-protocol ones, WDICT) refines the LZ77 specification for every window size, recycled buffer and "
     "protocol-respecting history (dict_refines); 53 generated-table obligations now include the BUILT fixed decoders "
     "decLit/decDist (every bit pattern decodes as the model's fixedLitTree/fixedDistTree).")
_add("C02", "Added: the brotli sliding window at implementation level (Window/DictBr.v; WDICTBR correspondence) refines the LZ77 "
     "specification (br_refines); every DERIVED lookup table the Go decoder decodes with - iacLUT, distShortLUT, "
     "distLongLUT[0..3], the context P1/P2 LUTs (all 4x256x256 points), maxRLERanges, simple-code lengths, the four fixed "
     "prefix decoders and their code lists - is proved equal, by kernel computation regenerated on every run, to the "
     "tabulation of the function the RFC model decodes with (Gen/TablesOK.v: 53 lemmas; 31 library mutations were shown to "
     "break a named lemma each).")
_add("C08", "Added: window memory - the buffer never exceeds max(recycled capacity or 4096, min(window size, 4 x bytes "
     "produced)), flate and brotli (dict_memory, br_memory): a short stream never allocates the declared window.")
_add("C14", "Added: for the recycled flate window (Reset keeps the history buffer) decoding is independent of the buffer's "
     "previous contents and capacity for every command stream whose distances stay inside its own output "
     "(reset_equals_fresh, recycled_irrelevant; outside that protocol stale bytes do leak - stale_leak - so the Reader's "
     "distance check is what separates streams). The check now also runs Writers created between Close and Reset of "
     "another Writer, first destinations that fail having accepted nothing, and Reader reuse over multi-index streams.")

_add("C15", "Added (third session): THE PART THAT HOLDS IS PROVED FOR EVERY BYTE STRING - "
     "xflate_accept_implies_deflate_unless_final_bit_in_chunk (XFlate/AcceptDeflate.v + Meta/Accept.v, 2500 lines by a proof "
     "sub-agent): if the Reader model accepts a stream and no data chunk delimited by the accepted index contains a block "
     "with the final bit (c15_class = 1, the very classification this check applies), the RFC 1951 model reads the same "
     "content and consumes the stream to its last byte (streams below 2^63 bytes). Hence the known finding D7 is the only way "
     "the property fails. Uses the converse for meta blocks (everything the meta decoder accepts is an empty DEFLATE block).")
_add("C16", "Added: the CONVERSE is proved too - whatever the meta decoder accepts is, for the RFC 1951 model, an empty block "
     "ending at the same bit, final iff FinalStream (Meta/Accept.v) - so all clauses of the property now have theorems.")
_add("C12", "Added: THE PROPERTY FOR EVERY HISTORY under contract K1 (XFlate/FlushPoints.v): every proper cut of a closed "
     "Writer's output makes the DEFLATE model end in UnexpectedEOF with a prefix of the data (xflate_cut_never_misread); "
     "right after any successful Flush the p bytes handed out decode to EXACTLY the data written before it, any "
     "continuation keeps them, later calls never change them (xflate_flushed_data_survives_truncation).")
_add("C05", "K1 is satisfiable (XFlate/K1Witness.v: a stored-block compressor satisfies it and the whole Writer -> Reader "
     "pipeline runs inside Coq), so the theorems are not vacuous.")
_add("C20", "(6) the two-level DECODER TABLE and the encoder table at implementation level (Prefix/DecTable.v mirrors "
     "Decoder.Init over recycled arrays with arbitrary stale contents, the ReadSymbol loop over the bit-reader model, "
     "Encoder.Init's grow-and-retry; WDECTAB correspondence): for every valid code the lookup returns the code's symbol and "
     "length, tables do not depend on stale contents, ReadSymbol on a ReadByte source pulls exactly the bytes holding the "
     "code word (zero-minimal codes: all canonical ones), encoder-then-decoder returns the symbol (Prefix/Dec*Thms.v, "
     "Enc*Thms.v). Findings outside what the library's own callers do: for valid NON-canonical codes ReadSymbol can request "
     "more bits than the next code word (witness_over_request); symbols >= 2^27 are truncated; Encoder.Init loops for ever "
     "on duplicate symbols.")
_add("C01", "The decoder tables built by prefix.Decoder.Init from the canonical code of any complete length assignment decode "
     "every canonical code word (canon_table_decodes) - the link between the table walk of the Go code and the trie of "
     "the RFC model. A model of flate.Reader itself composing bit reader, tables and window is in progress.")

_add("C04", "Added: THE PROPERTY FOR EVERY INPUT - bzip2_writer_is_lossless (Bzip2/StreamRoundTrip.v; 7 files, 2300 lines by a "
     "proof sub-agent on top of the stage theorems): for every input and every level 1..9, no size bound, the decoder model "
     "(the libbzip2 port) accepts the encoder model's output, returns the input and consumes every byte; concatenations "
     "of encodings decode to the concatenation. New stages: bit-field plumbing, symbol map, selectors and their MTF, "
     "delta-coded length tables, libbzip2's limit/base/perm decoding inverts the canonical code for every length vector "
     "with Kraft sum <= 1 (read_symbol_correct), the 50-symbol tree switching loop, one block, the stream with its CRCs. "
     "Since the encoder model is compared byte for byte with bzip2.Writer on every run and the decoder model with libbzip2, "
     "this is the lossless / interoperable clause; split independence holds by construction of the model (a function of "
     "level and data) and is checked on the implementation by the oracle.")
_add("C03", "Added: concatenated Writer-produced members of any levels decode to the concatenation of their inputs, consumed to "
     "the last byte, for every list of inputs (bzip2_concatenated_members_decode_to_concatenation).")

_add("C10", "KNOWN FINDING D10 (third session, found by the implementation-level model of flate.Reader): over a ReadByte-only "
     "source flate.Reader reports UnexpectedEOF instead of Corrupted for an invalid dynamic block whose violation lies in "
     "the last two bytes of the input (class bytereader-eof-before-corruption-at-end in known_findings.txt; witnesses are "
     "generated on every run, a different dependence of the class on the source is still a violation).")

_add("C03", "Added: FOR EVERY LENGTH VECTOR (2..258 lengths in 1..20) the code list the Go reader builds - GeneratePrefixes when the "
     "Kraft sum is one, handleDegenerateCodes otherwise (model Bzip2/Degenerate.v mirrors createTables/getSymbol/exploreCode; "
     "WBZDEGEN correspondence incl. the real ReadPrefixCodes dispatch) - is complete and prefix-free and decodes, on every "
     "source state, exactly like libbzip2's limit/base/perm tables: same symbol after the same bits, Corrupted at the same "
     "bit, UnexpectedEOF on the same inputs (bzip2_code_tables_decode_like_libbzip2; 9 files by a proof sub-agent). "
     "Truncation: every proper non-empty prefix of a Writer-produced stream is UnexpectedEOF with a prefix of the data; a cut "
     "between members is acceptance; trailing bytes that do not begin a stream are refused after the data (Bzip2/Cut.v).")
_add("C09", "Added: bzip2 truncation theorem for every Writer-produced stream and cut (Bzip2/Cut.v); the XFLATE Reader model on ANY "
     "input: open fails only with Corrupted/UnexpectedEOF and every call of every history on an opened stream ends in a "
     "documented class, never a panic or an exhausted budget (XFlate/Total.v).")
_add("C08", "Added: totality of the XFLATE Reader model on hostile input (XFlate/Total.v): the backward index walk descends by >= 4 "
     "bytes per index (at most length/4 indexes), the decoded record table is always sorted whatever the index claims, the Read "
     "loop's budget 2*records + n + 8 suffices on every stream; open I/O is bounded by the file size + 64 on any input "
     "(XFlate/OpenLocality.v).")
_add("C17", "Added: the OPEN phase as an equation on the I/O log (XFlate/OpenLocality.v): for every Writer-produced stream the log is "
     "one read of the last min(64, len) bytes, each index block exactly once, newest first, then the first item is prepared; on "
     "any input the index reads are disjoint, descending and below the footer.")
_add("C12", "bzip2: every proper non-empty prefix of Writer output is UnexpectedEOF with a prefix of the data (Bzip2/Cut.v).")
_add("C02", "brotli's OWN bit reader and prefix decoder at implementation level (Brotli/BitReaderImpl.v over a modelled bufio.Reader, "
     "Brotli/PrefixDecoderImpl.v; WBRBITS / WBRDEC correspondence): the bit reader refines the abstract bit stream for all "
     "histories on both source paths (no over-consumption after FlushOffset; brotli's copy has no look-ahead bits, so defect D5 "
     "of internal/prefix does not exist there), Init builds correct tables in both assignCodes modes over any stale storage, "
     "ReadSymbol returns the symbol consuming exactly the code word (Brotli/*Thms.v).")

_add("C01", "ADDED: THE PROPERTY AT IMPLEMENTATION LEVEL (Flate/Impl.v + 16 proof files, 6600 lines, by a proof sub-agent): a model of "
     "flate.Reader itself - Read loop, the four step functions incl. the resumable readBlock, ReadPrefixCodes with the degenerate "
     "rule and the MinBits adjustment, the Try* fast paths - composed of the bit-reader, decoder-table and window models and "
     "compared with the real Reader PER Read CALL (bytes, error, both offsets, source position; WFLIMPL), is proved to REFINE "
     "the RFC 1951 model for every input, every source script, a fresh or Reset Reader and every Read schedule: never a wrong "
     "byte, never a panic; on Peek-capable sources exactly the RFC result (output, class, offsets) on EVERY input; on every source "
     "kind valid streams decode exactly with no over-consumption. The remaining trust: that Flate/Impl.v is flate.Reader "
     "(per-call correspondence) and that Flate/Spec.v is RFC 1951 (cross-checked with zlib and compress/flate on every run).")
_add("C10", "ADDED: for flate.Reader the independence from Read sizes and source fragmentation is a THEOREM about the "
     "implementation-level model (Flate/ImplThms.v: for every schedule and script the delivered bytes are a prefix of one fixed "
     "string and the outcome is the RFC model's); the exception for ReadByte-only sources is exactly known finding D10, whose "
     "negative statement is also proved inside Coq (flate_class_depends_on_source_kind_D10).")
_add("C11", "ADDED: flate.Reader at implementation level consumes exactly the stream on both source kinds, for every script and Read "
     "schedule: InputOffset and the source position equal the stream length at io.EOF (flate_reader_consumes_exactly_the_stream).")
_add("C14", "ADDED: flate.Reader.Reset: the refinement theorem holds from fl_reset of ANY earlier state exactly as from a new Reader "
     "(recycled window buffer and decoder tables of arbitrary content).")
_add("C13", "ADDED: bzip2.Writer and meta.Writer THEMSELVES at implementation level (Bzip2/WriterImpl.v, Meta/WriterImpl.v: the real call "
     "structure of writer.go over the bit-writer model and a scripted failing sink - errors.Recover followed by the unconditional "
     "Flush, the latch, errClosed, offsets; compared PER CALL with the real Writers incl. every accepted size of every sink call: "
     "WBZW, WMETAW) with, for every history and sink script: once failed every later call fails and makes no sink call; the "
     "failing call returns the sink's error; Close = nil implies no sink failure and sink = bzip2_encode level data (resp. "
     "meta_encode payload mode); bytes accepted up to the first failed sink call are a prefix of the fault-free output; offsets "
     "exact; Reset gives a Writer equal to a new one (false for an Init that keeps cntBuf: reset_with_stale_cntBuf_differs). "
     "Negative result proved and checked against Go: after the failed sink call at most two more sink calls happen inside the same "
     "user call and may repeat staged bytes (not a continuation) - the property constrains only bytes before the failure.")

_LIFE = ("ADDED: the LIFECYCLE of flate.Reader at implementation level (Flate/ImplLife.v: Close, the latch, Reset; histories of "
         "Read/Close/Reset in any order over scripted sources of both kinds compared PER CALL with the real Reader - bytes, error "
         "class, both offsets, source position: WFLLIFE) with theorems for EVERY state, no reachability assumption "
         "(Flate/ImplLifeThms.v, ImplLifeSim.v, ImplLifeWin.v): ")
_add("C09", _LIFE + "once a Read has returned a non-nil error (io.EOF and the closed error included) every later Read returns no byte "
     "and the same error and the state never changes; Close then returns nil for io.EOF/closed and the error otherwise "
     "(flate_reader_error_is_sticky).")
_add("C18", _LIFE + "Close touches neither source nor offsets nor window and drops pending output (flate_reader_close_frame); after "
     "Close on a Reader whose error is latched every later Read/Close, in any order and number, returns the closed error / nil "
     "(or the latched error) and changes nothing (flate_reader_closed_is_inert). Proved NEGATIVE result, outside the property: a "
     "Close in the middle of a healthy stream closes nothing, drops the pending output and lets the next Read go on "
     "(flate_reader_close_midstream_closes_nothing; witness replayed against Go).")
_add("C14", _LIFE + "Reset of ANY state (mid-block, failed, closed, after EOF; tables, window contents, scratch arbitrary) followed by "
     "any history is observed call by call exactly like a NEW Reader whose window buffer has the old capacity - the capacity "
     "(4096/16384/32768 for reachable Readers) is the only thing that survives (flate_reader_reset_as_new, "
     "..._reachable_capacity); at the level of whole streams nothing survives: same bytes and same final error as NewReader for "
     "every input on Peek-capable sources and every valid input on both kinds (flate_reader_reset_same_stream_*). Proved "
     "negative: call by call a grown buffer shows as a different split of the output over Read calls "
     "(flate_reader_reset_keeps_capacity_refuted), a legal short-read difference.")

_add("C03", "ADDED: THE PROPERTY AT IMPLEMENTATION LEVEL (Bzip2/Impl.v + 28 proof files, 8400 lines, by a proof sub-agent): a model of "
     "bzip2.Reader itself - the big-endian bit reader over both source kinds, ReadPrefixCodes on six recycled Decoder objects with "
     "GeneratePrefixes / handleDegenerateCodes, selectors, the 50-symbol groups, moveToFront.Decode, the BWT inversion, the "
     "resumable rle.Read per call, the CRC on reversed bits, the Read loop with errors.Recover, stream concatenation - compared "
     "with the real Reader PER Read CALL (bytes, error class, both offsets, source position; WBZIMPL), is proved to REFINE the "
     "libbzip2 port for every input, source kind and script and every Read schedule (bzip2_reader_implementation_refines_libbzip2): "
     "never a panic; io.EOF exactly when libbzip2 accepts, then with its bytes and InputOffset = the input consumed; otherwise "
     "libbzip2 rejects too, the delivered bytes are a prefix of its output, and class and bytes are the same - or the class is "
     "io.ErrUnexpectedEOF (known finding D11, in the statement). Not in the statement: OutputOffset and InputOffset at errors "
     "other than io.EOF (correspondence only).")
_add("C10", "ADDED: known finding D11 (bzip2.Reader over a byte-at-a-time source: UnexpectedEOF instead of Corrupted for a dead prefix "
     "of an under-subscribed tree at the end of the input) is recorded with a generated witness family, and its negative statement "
     "is proved inside Coq on the implementation-level model of bzip2.Reader (bzip2_class_depends_on_source_kind_D11). Defect D12 "
     "(flate stored block completed by a Read that also returns io.EOF) was found through this property, reproduced by the "
     "strengthened corpus and repaired (fix: 8f93947).")
_add("C14", "ADDED: bzip2.Reader.Reset at implementation level: from ANY state with its six Decoder objects (every reachable state has "
     "them) the Reader after Reset refines libbzip2 exactly as a new one (bzip2_reader_reset_refines_libbzip2, "
     "bzip2_reader_reachable_has_six_decoders); Reset sequences are part of the per-call correspondence WBZIMPL.")

_METAR = ("ADDED: meta.Reader ITSELF at implementation level (Meta/ReaderImpl.v: Read loop, decodeBlock over the bit-reader model on both "
          "source kinds, the temporary bit writer, errors.Recover with the deferred Flush, FinalMode, counters; compared with the real "
          "Reader PER CALL - bytes, error class, InputOffset, OutputOffset, NumBlocks, FinalMode, source position, Close, Reset: "
          "WMETAR; proofs Meta/ReaderImplSim.v, ReaderImplThms.v): ")
_add("C16", _METAR + "it REFINES the decoder of Meta/Model.v for every input, source kind and script and every Read schedule "
     "(meta_reader_implementation_refines_model): delivered bytes = the specification's output, io.EOF exactly when it accepts, "
     "otherwise its error class (the classes never differ on any source kind), FinalMode and NumBlocks the specification's, "
     "InputOffset = source position = end of the final block.")
_add("C11", _METAR + "after EVERY call OutputOffset = bytes delivered, InputOffset = bytes taken from the source, NumBlocks = blocks "
     "decoded (meta_reader_counters_are_exact); at io.EOF InputOffset and the source position are the end of the final block on "
     "both source kinds: nothing beyond the stream is consumed (meta_reader_consumes_exactly_the_stream).")
_add("C10", _METAR + "delivered bytes and final error class depend neither on the Read sizes nor on the source kind or script "
     "(meta_reader_is_schedule_independent).")
_add("C09", _METAR + "from ANY state the first error is returned by every later Read with no bytes and nothing changes; Close "
     "succeeds exactly when no error other than io.EOF is latched (meta_reader_latch_and_close).")
_add("C18", _METAR + "after a successful Close every Read returns the closed error; Close is idempotent and touches neither the source "
     "nor the counters (meta_reader_closed_means_closed).")
_add("C14", _METAR + "Reset from ANY state gives exactly the state of NewReader (meta_reader_reset_is_new).")

_BZLIFE = ("ADDED: the LIFECYCLE of bzip2.Reader at implementation level (Bzip2/ImplLife.v: Close, the latch, Reset; histories of "
           "Read/Close/Reset in any order over scripted sources of both kinds compared PER CALL with the real Reader: WBZLIFE; proofs "
           "Bzip2/ImplLifeLatch.v, ImplLifeSim.v, ImplLifeInv.v, ImplLifeThms.v): ")
_add("C09", _BZLIFE + "from every state a Reader can reach (bzip2_reader_states_are_good) a Read that returns an error returns no bytes, "
     "and every later Read returns it again with nothing changed; Close returns nil for io.EOF/closed and the error otherwise "
     "(bzip2_reader_error_is_sticky; the reachability premise is needed: bzip2_reader_sticky_needs_reachability).")
_add("C18", _BZLIFE + "Close never touches source, offsets, counters, CRCs or Decoder objects (bzip2_reader_close_frame); after Close on a "
     "latched error every Read/Close history returns the closed error / nil (or the latched error) and changes nothing "
     "(bzip2_reader_closed_is_inert). Proved negative, outside the property: Close with no error latched closes nothing "
     "(bzip2_reader_close_midstream_closes_nothing; unlike flate.Reader no output is lost).")
_add("C14", _BZLIFE + "Reset from ANY state with its six Decoder slots followed by any history gives call by call exactly the observations "
     "of a new Reader; no recycled capacity is observable (bzip2_reader_reset_as_new, bzip2_reader_recycled_storage_unobservable).")

_add("C14", "ADDED: Reset INSIDE the XFLATE models (XFlate/WriterReset.v, ReaderReset.v: w_reset / r_reset written field by field as the Go "
     "methods, NewWriter / NewReader defined through Reset as in Go, the zero-value objects explicit; histories with Reset compared "
     "live per op with the real types: WXFRESET, plus a verif hook exposing cursor, index and reset state) with theorems for every "
     "state and every external compressor (XFlate/ResetThms.v): xflate.Writer.Reset gives exactly the NewWriter state of its "
     "configuration, so a history through one Writer splits at each Reset into histories of new Writers "
     "(xflate_writer_reset_as_new, ..._histories_split_at_reset); the seeded regression 'Reset keeps the back size' is refuted "
     "inside Coq; xflate.Reader.Reset followed by any ops gives the observations, I/O log included, of NewReader followed by the "
     "same ops (xflate_reader_reset_as_new) - the states are NOT equal (the recycled decompressor object keeps the abandoned "
     "chunk's offsets after a failed open: proved, and unobservable). Model limitation found here: on a DAMAGED chunk the real "
     "Reader latches Corrupted in the Read that returns the last bytes, the Reader model one Read later; Writer-made streams never "
     "do this; such histories are compared up to that Read and counted.")

_LATCH = ("ADDED: the xflate.Reader model was REPAIRED for damaged chunks (the chunk decompressor hands the last bytes over together "
          "with its error or io.EOF; the real Reader acts on that status in the same Read, the old model one Read later - found by "
          "the Reset work, invisible to runs that read to the end). All theorems re-established; WXRLATCH drives 17 kinds of "
          "hand-made damaged chunks under consistent indexes live against the model, per call (Read / Seek / Close results, cursor "
          "fields). ")
_add("C09", _LATCH + "The failure contract of xflate.Reader on such input - error latched in the call that delivers the last bytes, Seek "
     "and Close report it - is now part of the per-call correspondence.")
_add("C15", _LATCH + "Acceptance of hostile streams is compared with the repaired model.")
_add("C17", _LATCH + "One statement was false for the code and was corrected: read locality is strict except that a Read ending exactly "
     "at the end of a chunk whose io.EOF arrives with its last bytes also steps to the next record (a Seek, no fetch; witness "
     "Latch.eof_with_the_last_bytes_moves_on).")
_add("C07", _LATCH + "The table-level refinement lemma needs 'the last record has no raw data' (true of every table open_reader builds: "
     "append_record_zero_last); xflate_reader_refines_readseeker is unchanged.")

_add("C02", "ADDED: brotli.Reader ITSELF at implementation level (Brotli/Impl.v + 17 proof files, by a proof sub-agent: the full Reader "
     "state, Read, the four steps, ReadPrefixCode with the sorting networks and both table modes, context maps with the persistent "
     "move-to-front state, block switching, the label machine of readCommands with its three suspension states, distance tables, "
     "the static-dictionary copy with all 121 transforms as written, Reset/Close), compared with the real Reader PER Read CALL on "
     "both source paths incl. a dump of the internal state (WBRIMPL). Proved, layer by layer up to ONE STEP of the whole decoder "
     "(brotli_reader_step_keeps_the_rfc_decoders_future): from a state related to a configuration of the RFC 7932 model every step "
     "keeps the RFC decoder's future - io.EOF exactly when it accepts, failure exactly when it fails, output only grows, never a "
     "run-time panic; likewise one call of readCommands resumed in any suspension state, readPrefixCodes as a whole and "
     "ReadPrefixCode from any recycled storage. OPEN, not claimed: the assembly over whole histories of Read calls "
     "(brotli_impl_refines_rfc7932_statement stays a Definition) and the sufficiency of the model's loop budgets. Observation "
     "(no defect): on inputs that are both truncated and invalid the final error CLASS differs from the RFC model in both "
     "directions (UnexpectedEOF against Corrupted); acceptance and output never differ.")
