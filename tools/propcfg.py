"""Per-property texts used in the evidence files."""
PROPS = {}
NOT_YET = {}

PROPS["C16"] = dict(
    rule=("cases: all payloads of length <=1 x 3 modes; sampled (thorough: all) length-2 payloads; "
          "single-block payloads of every bit weight, lengths 0..31, with random write partitions; "
          "XFLATE footers for boundary and random back sizes; long random payloads x partitions; "
          "converse: mutated valid blocks (bit flips in the first 96 bits, any bit, truncation, byte edit, "
          "trailing junk, concatenation) and random strings. Non-trivial = encoder case, or decoder input that "
          "reaches accept/Corrupted/UEOF; distinct by content hash of (bucket, payload, mode)."),
    explanation=("Theorems (Props/C16.v) are about the Gallina model of xflate/internal/meta (encoder as a "
                 "function to bits, decoder as a prog). Every case is run through the real package and through the "
                 "extracted model; writer output is compared byte for byte, reader results by (class, payload, "
                 "final mode, blocks, bytes used). Implementation oracles: round trip through two source kinds, "
                 "compress/flate silence and finality, block size 12..64, <=22 bytes => one block, signature only at "
                 "block starts, ReverseSearch = last block start, split independence, accepted => empty DEFLATE."),
    assumptions=["compress/flate (Go stdlib) is a conforming RFC 1951 decoder (reference only)"],
    level_text=("Theorems about the Gallina model of the meta encoder/decoder (22-byte guarantee and its tightness, "
                "split independence of Write, the Writer never produces an unencodable block) hold for all payloads; "
                "the model is tied to xflate/internal/meta by byte-for-byte correspondence on every run. Round trip, "
                "DEFLATE silence, size bounds and signature uniqueness are currently decided by the correspondence plus "
                "implementation oracles on generated inputs (theorems for them are being added)."),
    level_note=("Trusted: Coq kernel, extraction (ExtrOcamlBasic), OCaml driver, Go harness and generators, "
                "compress/flate as reference. Model = code only as far as the sampled correspondence shows."),
)

PROPS["C01"] = dict(
    rule=("cases: every string of <=1 byte and a 1/7 stratified sample of 2-byte strings (thorough: all 2-byte, 1/61 of "
          "3-byte); compress/flate output at levels -2,0..9 with random flushes; zlib output over level/windowBits/"
          "memLevel/strategy/flush modes; bit-level synthesised streams (stored/fixed/dynamic, random complete codes, "
          "single-code trees, repeat codes, padding bits) and the same with one RFC rule broken (12 kinds); mutations; "
          "every truncation of 40 synthesised streams; two large inputs. Non-trivial = accepted, or delivered output, or "
          "longer than 2 bytes; distinct by content hash."),
    explanation=("The RFC 1951 decoder is the Gallina prog Flate.Spec.inflate_prog. Each case runs through flate.Reader, "
                 "the extracted model, compress/flate and zlib. Compared with the model: error class, every delivered byte, "
                 "bytes consumed on success. Implementation oracles: acceptance/output/consumption equal to both references "
                 "(cases where the references disagree with each other are counted as reference-ambiguity), delivered bytes "
                 "prefix-comparable with the references on failure, no over-consumption, OutputOffset exact, no panic."),
    assumptions=["compress/flate and zlib are conforming RFC 1951 decoders (references)"],
    level_text=("Locality theorems (verdict/output/consumption independent of trailing bytes; any cut gives exactly "
                "UnexpectedEOF and a prefix of the output) are proved for the Gallina RFC 1951 decoder for all inputs. "
                "That this decoder is what flate.Reader computes is checked by correspondence on every run (0 disagreements "
                "required) and it is cross-checked against zlib and compress/flate; the table-lookup/window refinement "
                "theorems are layered in Prefix/ and Window/ as they are completed."),
    level_note=("Trusted: Coq kernel, extraction, OCaml driver, Go harness/generators, zlib + compress/flate as references. "
                "The claim 'model = flate.Reader' is sampled, not proved."),
)

_XF_TRUST = ["external: Go compress/flate.Writer answers the model's deflate requests (contract K1: output is a byte-aligned "
             "sequence of non-final blocks after Flush, deterministic, never retracts emitted bytes); compress/flate reader "
             "is modelled by Flate.Spec (contract K2)"]

PROPS["C05"] = dict(
    rule=("histories: every call sequence up to length 3 (thorough: 4) over {Write 0/1/3/chunk/chunk+1 bytes, Flush sync/"
          "full/index/invalid} ending in Close, for 2 (thorough: 5) configurations; random histories up to 40 calls over "
          "random configurations (Level -2,-1,0,1,5,6,9; ChunkSize 1,2,7,16,100,default; IndexSize -1,1,2,3,default); refused "
          "configurations. Non-trivial = any data written or more than one call; distinct by hash of (config, ops)."),
    explanation=("Each history is run on the real xflate.Writer and on the extracted Writer model (the model's compressor "
                 "requests are answered by the real compress/flate). Compared: per-call (count, error class), InputOffset, "
                 "OutputOffset and the sink bytes, byte for byte. Implementation oracles: Close succeeds, xflate.NewReader + "
                 "ReadAll returns the written bytes, Seek(0,End) = length, the same data with different Write splits gives "
                 "the same bytes, offsets exact, invalid flush mode refused."),
    assumptions=_XF_TRUST,
    level_text=("Proved for the Writer model, for every compressor and every call history: OutputOffset equals the bytes "
                "handed to the sink; invalid configurations are refused. The model is tied to xflate.Writer byte for byte on "
                "every run. The general round-trip theorem (Reader model over Writer model output) is exercised by the "
                "correspondence and a concrete witness; its proof is in progress (DESIGN.md C05)."),
    level_note="Trusted: as C16, plus the external compressor contract K1 (runtime-checked by running the real library).",
    trusted_extra=_XF_TRUST,
)
PROPS["C06"] = dict(
    rule=PROPS["C05"]["rule"],
    explanation=("Same histories as C05. Implementation oracles: the sink followed by a 4-byte canary is decoded by "
                 "compress/flate, zlib and this repository's flate.Reader; each must return exactly the written bytes, "
                 "consume exactly the sink and leave the canary; cuts of the sink must be incomplete (final bit only at the "
                 "end). The Writer model is compared byte for byte."),
    assumptions=_XF_TRUST + ["zlib and compress/flate are conforming DEFLATE decoders"],
    level_text=("The RFC 1951 model decodes the real Writer's output completely (witness), a closed writer never appends "
                "(all histories), and a DEFLATE verdict is independent of trailing bytes (all inputs). The general theorem "
                "'every Writer-model output inflates to the written data' needs the compositionality lemma for byte-aligned "
                "non-final block sequences and K1; until it is closed the claim rests on the byte-exact Writer model plus "
                "three independent decoders on every generated history."),
    level_note="Trusted: as C05.",
    trusted_extra=_XF_TRUST,
)
PROPS["C07"] = dict(
    rule=("streams: a 5-chunk stream with an empty chunk and two indexes, a chain of one-record indexes, the empty stream, "
          "a single chunk, random configurations (thorough: plus a 300 KB default-chunk stream). Histories: every Seek/Read "
          "sequence up to depth 3 (thorough: 4) on the first stream and depth 2 on the others over a boundary alphabet "
          "(offsets -1/0/+1 around chunk edges, end+5, 2^40; whence 0..3; Read lengths 0,1,chunk-1,chunk+1,all+3), "
          "random sequences up to 65 calls, and the D1/D2 regression histories. Distinct by hash of (stream, ops)."),
    explanation=("Every history runs on the real xflate.Reader next to a bytes.Reader over the original data (per-call "
                 "oracle: Seek results and refusals, data at the current position, EOF exactly at the end, progress, "
                 "zero-length reads return within 2 s) and on the extracted Reader model (per-op results at ReadFull "
                 "granularity). Defects D1, D2 were rediscovered by this check before being repaired."),
    assumptions=_XF_TRUST,
    level_text=("Proved for the Reader model for all states: zero-length Read is prompt and changes nothing; refused seeks "
                "(bad whence, negative) leave the reader unchanged; errors are sticky; the pre-repair Seek is refuted by a "
                "machine-checked witness and the repaired one passes it. The refinement theorem to bytes.Reader over all "
                "histories is in progress; until then the all-history claim rests on the exhaustive/random correspondence "
                "(0 disagreements) and the per-call oracle."),
    level_note="Trusted: as C05.",
    trusted_extra=_XF_TRUST,
)

_RD_EXPL = ("Decoders: flate, brotli, bzip2, meta (and xflate.Reader where stated). Valid streams from compress/flate, zlib, "
            "bit-level synthesis, libbrotlienc (quality/lgwin/mode/lgblock/NPOSTFIX/NDIRECT/flush/metadata), libbz2 incl. "
            "concatenated streams, meta.Writer. ")
PROPS["C09"] = dict(
    rule=("per codec: valid streams; every proper prefix of short streams (64 sampled cuts + ends for long ones) under a random "
          "source kind and schedule; 12 mutations per stream; a source that fails with a sentinel error at every position "
          "(sampled for long streams) for Read-only, ReadByte and Peek/Discard sources; xflate containers truncated/mutated. "
          "After the first error: two more Reads and Close. Distinct by hash of (input, cut/fault position)."),
    explanation=(_RD_EXPL + "Implementation oracles: cut => exactly io.ErrUnexpectedEOF (bzip2: a cut exactly between streams "
                 "is acceptance; meta: a cut between blocks is a clean EOF) and delivered bytes a prefix of the plaintext; "
                 "malformed => class in {EOF, UnexpectedEOF, Corrupted, Deprecated}; failing source => the sentinel itself; "
                 "sticky error; Close nil iff EOF. flate cases are also compared with the extracted RFC 1951 model."),
    assumptions=["libbrotli, libbz2, zlib, compress/flate produce valid streams (generators)"],
    level_text=("Proved for the Read wrapper over every decoder program: the reported error is the decoder's outcome, is "
                "reported only after everything decoded was delivered, is sticky, and Close returns nil exactly after EOF; "
                "for the RFC 1951 model every cut of an accepted stream gives exactly UnexpectedEOF with a prefix of the "
                "output. For brotli/bzip2 the same locality theorem applies once their models are instantiated (eof-free "
                "programs); error-class containment and verbatim source errors are decided by the implementation oracles."),
    level_note="Trusted: Coq kernel, extraction, driver, Go harness, reference encoders. Model = code sampled.",
)
PROPS["C10"] = dict(
    rule=("per codec: valid and mutated streams x 11 source kinds (bytes.Reader, bytes.Buffer, strings.Reader, bufio 16/4096, "
          "bufio over a 1-byte-per-Read source, ReadByte-only, a randomly fragmenting BufferedReader, Read-only, one byte per "
          "Read, data-with-EOF) x 5 schedules (1, 7, 4096, 1 MiB, random with 30% zero-length); quick runs a third of the "
          "combinations. Baseline: bytes.Reader with 4096-byte reads."),
    explanation=(_RD_EXPL + "Implementation oracles: for accepted streams identical bytes and EOF under every driver; for "
                 "rejected streams prefix-comparable bytes and the same error class; per-call contract (n <= len, "
                 "OutputOffset, progress, sticky error, Close). flate baseline compared with the extracted model."),
    assumptions=[],
    level_text=("Proved for the Read wrapper over every decoder program and every schedule of buffer lengths (zero allowed): "
                "delivered bytes are always a prefix of the one-shot output, a schedule that ends in an error has delivered "
                "exactly the one-shot output and reports the one-shot outcome, zero-length reads lose nothing. Independence "
                "from the source's shape rests on the bit-reader layer (Prefix/BitReader, in progress) and on the oracle runs "
                "over 11 source kinds."),
    level_note="Trusted: as C09.",
)
PROPS["C11"] = dict(
    rule=("per codec: valid streams followed by 0..64 random trailing bytes x exact source kinds (bytes.Reader, bytes.Buffer, "
          "strings.Reader, bufio, ReadByte-only, custom BufferedReader except for brotli) x schedules; gated sources: "
          "compress/flate and zlib streams with sync/full flushes read through a ByteReader and a BufferedReader that expose "
          "only the flushed prefix and record the first request beyond it."),
    explanation=(_RD_EXPL + "Implementation oracles: result unchanged by the trailer, InputOffset = stream length, trailer "
                 "left unread (bzip2: InputOffset = total input, trailing garbage not accepted silently), OutputOffset after "
                 "every Read, all flushed data delivered before any request beyond the flush point."),
    assumptions=[],
    level_text=("Proved: for every eof-free decoder program (the RFC 1951 model is one) verdict, output and consumed length are "
                "independent of trailing bytes; consumption is a prefix of the source; OutputOffset equals bytes delivered "
                "after every Read for every schedule. That the Go bit readers pull no more bytes than the model's bit "
                "position is checked by the oracle runs (InputOffset and leftover), not yet by a theorem."),
    level_note="Trusted: as C09.",
)

PROPS["C03"] = dict(
    rule=("inputs: libbz2 and bzip2.Writer output at levels 1-9 (empty, runs of 1..300 equal bytes, 1..256-symbol alphabets, "
          "text, random); bit-level synthesised streams with checksums computed by the generator (2-6 trees, arbitrary "
          "selectors incl. more than needed, code lengths 1-20 incl. over/under-subscribed trees, RUNA/RUNB runs, RLE1 counts "
          "0..255 incl. zero count followed by the same byte, sparse symbol maps, origin-pointer edges, empty blocks, 14 "
          "kinds of injected error); concatenations; mutations; every truncation of short synthesised streams; 30 targeted "
          "block-limit / run-limit / RLE1-edge streams (100000-byte blocks). Non-trivial = accepted, or output delivered, "
          "or longer than a header; distinct by content hash."),
    explanation=("Each input runs through bzip2.Reader, libbzip2 (restarted per stream, via cgo) and the extracted decoder "
                 "model. Oracles: acceptance and output equal to libbzip2 (inputs refused as Deprecated are the permitted "
                 "divergence), delivered bytes prefix-comparable on failure, InputOffset = total input, class in "
                 "{UnexpectedEOF, Corrupted}. Model comparison: class and every delivered byte, also on failures. The model "
                 "(written by a sub-agent from libbzip2's decompress.c / huffman.c) was separately validated against libbz2 "
                 "on 22,000 inputs incl. 2,600 degenerate-tree streams and stage by stage against the Go helpers."),
    assumptions=["libbzip2 1.0.8 is the reference", "bit-level generator computes correct checksums (cross-checked by libbzip2 accepting its valid outputs)"],
    level_text=("The decoder is an executable Gallina port of libbzip2 (incl. limit/base/perm decoding of arbitrary length "
                "vectors); bzip2.Reader is tied to it byte for byte on every run and both to libbzip2. Proved: the generic "
                "Read-wrapper theorems instantiated for this program (schedule independence, error = decoder outcome) and "
                "concrete multi-stream / cut witnesses. The stage-equivalence theorems of DESIGN.md (RLE1, MTF/RLE2, BWT "
                "inversion, degenerate trees) are not yet proved: that part is differential testing against libbzip2."),
    level_note="Trusted: Coq kernel, extraction, driver, harness, libbzip2 as reference. Model = code sampled.",
)
PROPS["C04"] = dict(
    rule=("inputs x levels 1-9: empty, embedded runs of 1..300 equal bytes, small and full alphabets, text/random up to 3 KB, "
          "Fibonacci frequency profiles of 22-33 symbols (optimal code deeper than 20 bits), runs of 1..300 equal bytes "
          "placed at offsets -6..+5 around the level*100000 block limit (level 1; thorough: 1,2,3,9), a 250 KB multi-block "
          "input; each with 2 random Write partitions incl. zero-length writes; refused levels -100,-1,10,11,100."),
    explanation=("Oracles on bzip2.Writer: output accepted and decoded to the input by libbzip2 (one stream, all bytes "
                 "consumed), Go compress/bzip2 and bzip2.Reader; identical bytes for every partition; offsets exact; bad "
                 "levels refused. The extracted encoder model must produce the same bytes (byte for byte) for the small, "
                 "Fibonacci and selected block-limit inputs."),
    assumptions=["libbzip2 and compress/bzip2 are the reference decoders"],
    level_text=("bzip2.Writer is reproduced byte for byte by the Gallina encoder model (RLE1 block rules, BWT as sorted "
                "rotations, MTF/RLE2, length-limited Huffman incl. the uint32 tree rotation, selectors, delta-coded lengths). "
                "Proved so far: round trips through encoder and decoder models on concrete inputs (text, empty, long runs). "
                "The universal round-trip theorem needs the stage inverses (RLE1, MTF/RLE2, Huffman, BWT inversion); until "
                "they are proved the universal claim rests on the correspondence plus three independent decoders."),
    level_note="Trusted: as C03; SA-IS (bzip2/internal/sais) is not modelled: the model sorts rotations, the BWT stage is compared with the code's output.",
)
