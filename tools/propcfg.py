"""Per-property texts used in the evidence files."""
PROPS = {}
NOT_YET = {}

PROPS["C16"] = dict(
    rule=("cases: all payloads of length <=1 x 3 modes; sampled (thorough: all) length-2 payloads; "
          "single-block payloads of every bit weight, lengths 0..31, with random write partitions; "
          "XFLATE footers for boundary and random back sizes; long random payloads x partitions; "
          "converse: mutated valid blocks (bit flips in the first 96 bits, any bit, truncation, byte edit, "
          "trailing junk, concatenation) and random strings. Non-trivial = encoder case, or decoder input that "
          "reaches accept/Corrupted/UEOF; distinct by content hash of (bucket, payload, mode)."),
    explanation=("Theorems (Props/C16.v) are about the Gallina model of xflate/internal/meta (encoder as a "
                 "function to bits, decoder as a prog). Every case is run through the real package and through the "
                 "extracted model; writer output is compared byte for byte, reader results by (class, payload, "
                 "final mode, blocks, bytes used). Implementation oracles: round trip through two source kinds, "
                 "compress/flate silence and finality, block size 12..64, <=22 bytes => one block, signature only at "
                 "block starts, ReverseSearch = last block start, split independence, accepted => empty DEFLATE."),
    assumptions=["compress/flate (Go stdlib) is a conforming RFC 1951 decoder (reference only)"],
    level_text=("Theorems about the Gallina model of the meta encoder/decoder (22-byte guarantee and its tightness, "
                "split independence of Write, the Writer never produces an unencodable block) hold for all payloads; "
                "the model is tied to xflate/internal/meta by byte-for-byte correspondence on every run. Round trip, "
                "DEFLATE silence, size bounds and signature uniqueness are currently decided by the correspondence plus "
                "implementation oracles on generated inputs (theorems for them are being added)."),
    level_note=("Trusted: Coq kernel, extraction (ExtrOcamlBasic), OCaml driver, Go harness and generators, "
                "compress/flate as reference. Model = code only as far as the sampled correspondence shows."),
)
