"""Per-property texts used in the evidence files."""
PROPS = {}
NOT_YET = {}

PROPS["C16"] = dict(
    rule=("cases: all payloads of length <=1 x 3 modes; sampled (thorough: all) length-2 payloads; "
          "single-block payloads of every bit weight, lengths 0..31, with random write partitions; "
          "XFLATE footers for boundary and random back sizes; long random payloads x partitions; "
          "converse: mutated valid blocks (bit flips in the first 96 bits, any bit, truncation, byte edit, "
          "trailing junk, concatenation) and random strings. Non-trivial = encoder case, or decoder input that "
          "reaches accept/Corrupted/UEOF; distinct by content hash of (bucket, payload, mode)."),
    explanation=("Theorems (Props/C16.v) are about the Gallina model of xflate/internal/meta (encoder as a "
                 "function to bits, decoder as a prog). Every case is run through the real package and through the "
                 "extracted model; writer output is compared byte for byte, reader results by (class, payload, "
                 "final mode, blocks, bytes used). Implementation oracles: round trip through two source kinds, "
                 "compress/flate silence and finality, block size 12..64, <=22 bytes => one block, signature only at "
                 "block starts, ReverseSearch = last block start, split independence, accepted => empty DEFLATE."),
    assumptions=["compress/flate (Go stdlib) is a conforming RFC 1951 decoder (reference only)"],
    level_text=("Theorems about the Gallina model of the meta encoder/decoder (22-byte guarantee and its tightness, "
                "split independence of Write, the Writer never produces an unencodable block) hold for all payloads; "
                "the model is tied to xflate/internal/meta by byte-for-byte correspondence on every run. Round trip, "
                "DEFLATE silence, size bounds and signature uniqueness are currently decided by the correspondence plus "
                "implementation oracles on generated inputs (theorems for them are being added)."),
    level_note=("Trusted: Coq kernel, extraction (ExtrOcamlBasic), OCaml driver, Go harness and generators, "
                "compress/flate as reference. Model = code only as far as the sampled correspondence shows."),
)

PROPS["C01"] = dict(
    rule=("cases: every string of <=1 byte and a 1/7 stratified sample of 2-byte strings (thorough: all 2-byte, 1/61 of "
          "3-byte); compress/flate output at levels -2,0..9 with random flushes; zlib output over level/windowBits/"
          "memLevel/strategy/flush modes; bit-level synthesised streams (stored/fixed/dynamic, random complete codes, "
          "single-code trees, repeat codes, padding bits) and the same with one RFC rule broken (12 kinds); mutations; "
          "every truncation of 40 synthesised streams; two large inputs. Non-trivial = accepted, or delivered output, or "
          "longer than 2 bytes; distinct by content hash."),
    explanation=("The RFC 1951 decoder is the Gallina prog Flate.Spec.inflate_prog. Each case runs through flate.Reader, "
                 "the extracted model, compress/flate and zlib. Compared with the model: error class, every delivered byte, "
                 "bytes consumed on success. Implementation oracles: acceptance/output/consumption equal to both references "
                 "(cases where the references disagree with each other are counted as reference-ambiguity), delivered bytes "
                 "prefix-comparable with the references on failure, no over-consumption, OutputOffset exact, no panic."),
    assumptions=["compress/flate and zlib are conforming RFC 1951 decoders (references)"],
    level_text=("Locality theorems (verdict/output/consumption independent of trailing bytes; any cut gives exactly "
                "UnexpectedEOF and a prefix of the output) are proved for the Gallina RFC 1951 decoder for all inputs. "
                "That this decoder is what flate.Reader computes is checked by correspondence on every run (0 disagreements "
                "required) and it is cross-checked against zlib and compress/flate; the table-lookup/window refinement "
                "theorems are layered in Prefix/ and Window/ as they are completed."),
    level_note=("Trusted: Coq kernel, extraction, OCaml driver, Go harness/generators, zlib + compress/flate as references. "
                "The claim 'model = flate.Reader' is sampled, not proved."),
)
