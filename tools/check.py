#!/usr/bin/env python3
"""One property check: proofs + tie to /repo + failing-input search.

  tools/check.py <Cxx> --tier quick|thorough [--seed N]

Order of events (DESIGN.md 2.8):
  1. gate: no Admitted/Axiom/... anywhere in coq/
  2. proofs: (re)build the development, recompile Props/<Cxx>.v, collect
     `Print Assumptions`
  3. tie (i): regenerate Gen/ImplTables.v from the working tree of /repo and
     recompile Gen/TablesOK.v (kernel-checked table equality)
  4. tie (ii): build the Go harness against /repo's working tree (tag verif),
     run the property's generators + implementation oracles, run the extracted
     model on the same cases, diff projected observables
  5. classify, write evidence, print VIOLATION / KNOWN-FINDING lines
"""
import argparse, glob, hashlib, json, os, re, shutil, subprocess, sys, time

VERIF = os.environ.get("VERIF_ROOT", "/verif")   # relocatable: background runs from a snapshot set VERIF_ROOT
COQ = os.path.join(VERIF, "coq")
# Alternative-root mode (used to evaluate seeded changes without touching /repo, several at a
# time): VERIF_ALT=<dir> where <dir>/repo is a worktree of the library. The harness is copied to
# <dir>/harness with its go.mod pointing at <dir>/repo, generated tables are compiled in a symlink
# farm <dir>/coq, binaries, work files, evidence and replays go under <dir>. The Coq development and
# the extracted model (which do not depend on the library's source) are used from /verif as built.
ALT = os.environ.get("VERIF_ALT")
OUT = ALT or VERIF
HARNESS = os.path.join(OUT, "harness")
COQGEN = os.path.join(OUT, "coq")       # root used to compile Gen/ (== COQ unless ALT)
BIN = os.path.join(OUT, "bin")


def prepare_alt():
    os.makedirs(BIN, exist_ok=True)
    subprocess.run("rm -rf %s && cp -r %s %s" % (HARNESS, os.path.join(VERIF, "harness"), HARNESS), shell=True, check=True)
    gm = os.path.join(HARNESS, "go.mod")
    txt = open(gm).read().replace("=> /repo", "=> " + os.path.join(ALT, "repo"))
    open(gm, "w").write(txt)
    subprocess.run("rm -rf %s && mkdir -p %s/Gen" % (COQGEN, COQGEN), shell=True, check=True)
    for e in os.listdir(COQ):
        if e != "Gen" and not e.startswith("."):
            os.symlink(os.path.join(COQ, e), os.path.join(COQGEN, e))
    shutil.copy(os.path.join(COQ, "Gen", "TablesOK.v"), os.path.join(COQGEN, "Gen", "TablesOK.v"))
sys.path.insert(0, os.path.join(VERIF, "tools"))
from propcfg import PROPS  # per-property texts

ENV = dict(os.environ)
ENV.update({
    "GOFLAGS": "-mod=mod", "GOPROXY": "off", "GOSUMDB": "off", "GOTOOLCHAIN": "local",
    "CGO_ENABLED": "1", "GOCACHE": os.path.join(VERIF, ".cache", "go"),
    "CARGO_NET_OFFLINE": "true", "PIP_NO_INDEX": "1",
})
if VERIF != "/verif":
    ENV.update({"VERIF_DRIVER": os.path.join(VERIF, "bin", "driver"), "VERIF_BRDICT": os.path.join(VERIF, "bin", "brdict.bin"),
                "VERIF_ROOT": VERIF})

FORBIDDEN = re.compile(
    r"\b(Admitted|admit|Axiom|Axioms|Parameter|Parameters|Conjecture|Conjectures|"
    r"Admit Obligations|Unset Guard Checking|Unset Positivity Checking|"
    r"Unset Universe Checking|bypass_check|type-in-type|impredicative-set)\b")


def sh(cmd, timeout, cwd=None, env=None, stdout=None):
    """run under a shell timeout; returns (rc, output)"""
    try:
        p = subprocess.run(cmd, shell=isinstance(cmd, str), cwd=cwd, env=env or ENV,
                           stdout=subprocess.PIPE if stdout is None else stdout,
                           stderr=subprocess.STDOUT, timeout=timeout)
        out = p.stdout.decode("utf-8", "replace") if p.stdout else ""
        return p.returncode, out
    except subprocess.TimeoutExpired as e:
        out = e.stdout.decode("utf-8", "replace") if e.stdout else ""
        return 124, out + "\n[timeout after %ds]" % timeout


def strip_comments(text):
    out, depth, i = [], 0, 0
    while i < len(text):
        if text.startswith("(*", i):
            depth += 1; i += 2
        elif text.startswith("*)", i) and depth > 0:
            depth -= 1; i += 2
        else:
            if depth == 0:
                out.append(text[i])
            i += 1
    return "".join(out)


def gate():
    bad = []
    for f in glob.glob(os.path.join(COQ, "**", "*.v"), recursive=True):
        txt = strip_comments(open(f).read())
        for m in FORBIDDEN.finditer(txt):
            bad.append("%s: %s" % (os.path.relpath(f, COQ), m.group(0)))
        # Variable/Hypothesis outside a section
        depth = 0
        for line in txt.splitlines():
            s = line.strip()
            if re.match(r"Section\b", s): depth += 1
            elif re.match(r"End\b", s) and depth > 0: depth -= 1
            elif depth == 0 and re.match(r"(Variable|Variables|Hypothesis|Hypotheses|Context)\b", s):
                bad.append("%s: top-level %s" % (os.path.relpath(f, COQ), s[:40]))
    return bad


def build_coq(clean=False):
    if clean:
        sh("make clean >/dev/null 2>&1; find . -name '*.vo' -o -name '*.glob' -o -name '*.vok' -o -name '*.vos' | xargs rm -f",
           300, cwd=COQ)
    if not os.path.exists(os.path.join(COQ, "Makefile")) or clean:
        rc, out = sh("coq_makefile -f _CoqProject -o Makefile", 60, cwd=COQ)
        if rc != 0:
            return rc, out
    return sh("make -j16 2>&1 | tail -40", 3000, cwd=COQ)


def build_model_if_stale():
    """the extracted model (bin/driver) follows the Coq sources: rebuild it when any model
    file or the OCaml glue is newer than the binary"""
    drv = os.path.join(VERIF, "bin", "driver")
    srcs = [f for f in glob.glob(os.path.join(COQ, "**", "*.v"), recursive=True)
            if "/Props/" not in f and "/Gen/" not in f and "/scratch/" not in f]
    srcs += [os.path.join(VERIF, "ocaml", x) for x in ("driver.ml", "main.ml")]
    if os.path.exists(drv) and all(os.path.getmtime(f) <= os.path.getmtime(drv) for f in srcs if os.path.exists(f)):
        return 0, ""
    return sh(os.path.join(VERIF, "tools", "build_model.sh") + " 2>&1 | tail -20", 1800, cwd=VERIF)


def run_model_sharded(cases, outp, work, tmo):
    """run the extracted model over the case file; large files are cut into contiguous shards
    run in parallel (the driver is single-threaded), outputs concatenated in order"""
    drv = os.path.join(VERIF, "bin", "driver")
    size = os.path.getsize(cases)
    nlines = sum(1 for _ in open(cases, errors="replace"))
    nsh = 1 if (size < (4 << 20) and nlines < 1500) else min(16, max(2, size >> 22, nlines // 400))
    if nsh == 1:
        return sh("ulimit -v 16000000; ulimit -s unlimited; %s %s %s" % (drv, cases, outp), tmo)
    lines = open(cases).read().splitlines(True)
    # round-robin: case i goes to shard i mod nsh (sizes vary by orders of magnitude along the file)
    procs, outs = [], []
    for i in range(nsh):
        part = os.path.join(work, "cases.%02d" % i)
        po = os.path.join(work, "model.%02d" % i)
        open(part, "w").writelines(lines[i::nsh])
        outs.append((part, po))
        procs.append(subprocess.Popen("ulimit -v 16000000; ulimit -s unlimited; %s %s %s" % (drv, part, po),
                                      shell=True, stdout=subprocess.PIPE, stderr=subprocess.STDOUT))
    live = [0 if l.startswith("#") or not l.strip() else 1 for l in lines]
    del lines
    rc, msg = 0, ""
    t_end = time.time() + tmo
    for p in procs:
        try:
            o, _ = p.communicate(timeout=max(1, t_end - time.time()))
        except subprocess.TimeoutExpired:
            p.kill(); o = b"timeout"; rc = 124
        if p.returncode not in (0, None) and rc == 0:
            rc = p.returncode
        msg += o.decode("utf-8", "replace")[-300:]
    # re-interleave: shard k holds the observations of its non-comment cases, in order
    shard_out = []
    for part, po in outs:
        shard_out.append(open(po).read().splitlines(True) if os.path.exists(po) else [])
        if os.path.exists(po):
            os.remove(po)
        os.remove(part)
    pos = [0] * nsh
    with open(outp, "w") as f:
        for i, is_case in enumerate(live):
            if not is_case:
                continue
            k = i % nsh
            if pos[k] < len(shard_out[k]):
                f.write(shard_out[k][pos[k]])
            pos[k] += 1
    return rc, msg


def compile_props(prop):
    """recompile Props/<prop>.v from scratch; returns (ok, theorems, assumptions, log)"""
    src = os.path.join(COQ, "Props", prop + ".v")
    txt = strip_comments(open(src).read())
    theorems = re.findall(r"\bTheorem\s+([A-Za-z0-9_']+)", txt)
    for ext in (".vo", ".vok", ".vos", ".glob"):
        try: os.remove(os.path.join(COQ, "Props", prop + ext))
        except OSError: pass
    rc, out = sh(["coqc", "-Q", ".", "V", "Props/%s.v" % prop], 900, cwd=COQ)
    # Print Assumptions output: one block per theorem, in order
    blocks = []
    cur = None
    for line in out.splitlines():
        if line.startswith("Closed under the global context"):
            blocks.append("Closed under the global context"); cur = None
        elif line.startswith("Axioms:"):
            cur = ["Axioms:"]; blocks.append(cur)
        elif cur is not None and line.strip():
            cur.append(line.strip())
    blocks = [b if isinstance(b, str) else " ".join(b) for b in blocks]
    return rc == 0, theorems, blocks, out


def gen_tables():
    """tie (i): regenerate implementation tables from /repo and re-prove equality"""
    gen = os.path.join(BIN, "gentables")
    tv = os.path.join(COQGEN, "Gen", "TablesOK.v")
    if not os.path.exists(tv):
        return True, "no TablesOK.v", 0
    rc, out = sh("go build -tags verif -o %s ./cmd/gentables" % gen, 600,
                 cwd=HARNESS)
    if rc != 0:
        return False, "gentables build failed:\n" + out, 0
    with open(os.path.join(COQGEN, "Gen", "ImplTables.v"), "wb") as f:
        rc, out = sh([gen], 120, stdout=f)
    if rc != 0:
        return False, "gentables run failed", 0
    rc, out = sh(["coqc", "-Q", ".", "V", "Gen/ImplTables.v"], 600, cwd=COQGEN)
    if rc != 0:
        return False, "ImplTables.v does not compile:\n" + out[-2000:], 0
    rc, out = sh(["coqc", "-Q", ".", "V", "Gen/TablesOK.v"], 900, cwd=COQGEN)
    n = len(re.findall(r"\b(?:Lemma|Theorem)\b", strip_comments(open(tv).read())))
    if rc != 0:
        return False, "TablesOK.v: a generated table differs from the model's:\n" + out[-3000:], n
    return True, "ok", n


def build_harness():
    return sh("go build -tags verif -o %s ./cmd/vh" % os.path.join(BIN, "vh"), 900, cwd=HARNESS)


def load_known():
    known = []
    p = os.path.join(VERIF, "known_findings.txt")
    if os.path.exists(p):
        for line in open(p):
            line = line.strip()
            if line.startswith("known:"):
                m = re.match(r"known:\s+property=(\S+)\s+class=(\S+)\s*(.*)", line)
                if m:
                    known.append({"property": m.group(1), "class": m.group(2), "what": m.group(3)})
    return known


def main():
    ap = argparse.ArgumentParser()
    ap.add_argument("prop")
    ap.add_argument("--tier", default=os.environ.get("VERIF_TIER", "quick"))
    ap.add_argument("--seed", type=int, default=int(os.environ.get("VERIF_SEED", "1")))
    ap.add_argument("--skip-coq-build", action="store_true")
    a = ap.parse_args()
    prop, tier, seed = a.prop, a.tier, a.seed
    if tier not in ("quick", "thorough"):
        tier = "quick"
    cfg = PROPS[prop]
    t0 = time.time()
    if ALT:
        prepare_alt()
        a.skip_coq_build = True
    work = os.path.join(OUT, "work", prop)
    shutil.rmtree(work, ignore_errors=True)
    os.makedirs(work, exist_ok=True)
    os.makedirs(os.path.join(OUT, "replays"), exist_ok=True)
    os.makedirs(os.path.join(OUT, "evidence"), exist_ok=True)
    os.makedirs(ENV["GOCACHE"], exist_ok=True)

    broken = []        # (what, detail): proof / tie obligations that no longer check
    log = []
    # shared build products (coq .vo, Gen/, bin/) are guarded by a lock so that
    # checks may run concurrently
    import fcntl
    lockf = open(os.path.join(OUT if ALT else os.path.join(VERIF, ".cache"), "build.lock"), "w")
    fcntl.flock(lockf, fcntl.LOCK_EX)

    # 1. gate
    bad = gate()
    if bad:
        broken.append(("gate", "forbidden constructs in the development: " + "; ".join(bad[:10])))

    # 2. proofs
    coqchk_axioms = None
    if not a.skip_coq_build:
        # thorough: clean rebuild of every proof (VERIF_REUSE_BUILD=1 keeps the existing .vo files,
        # for running the thorough tier of all properties in a row after one clean build)
        rc, out = build_coq(clean=(tier == "thorough" and not os.environ.get("VERIF_REUSE_BUILD")))
        if rc != 0 or "Error" in out:
            broken.append(("coq-build", out[-3000:]))
        else:
            rc, out = build_model_if_stale()
            if rc != 0 or "Error" in out:
                broken.append(("model-extraction", out[-3000:]))
    if ALT:
        # the theorems do not depend on the library's source: they were compiled by the build in /verif
        txt = strip_comments(open(os.path.join(COQ, "Props", prop + ".v")).read())
        theorems = re.findall(r"\bTheorem\s+([A-Za-z0-9_']+)", txt)
        ok, assumptions, plog = os.path.exists(os.path.join(COQ, "Props", prop + ".vo")), ["(see /verif run)"] * len(theorems), ""
    else:
        ok, theorems, assumptions, plog = compile_props(prop)
    if not ok:
        broken.append(("Props/%s.v" % prop, plog[-3000:]))
    if ok and len(assumptions) != len(theorems):
        broken.append(("Props/%s.v" % prop, "Print Assumptions missing for some theorem (%d/%d)"
                       % (len(assumptions), len(theorems))))
    if tier == "thorough" and ok:
        rc, out = sh("coqchk -silent -o -Q . V V.Props.%s 2>&1 | tail -60" % prop, 3000, cwd=COQ)
        coqchk_axioms = out[-4000:]
        if rc != 0 and "Modules were successfully checked" not in out:
            broken.append(("coqchk", out[-2000:]))

    # 3. tables
    tok, tmsg, ntables = gen_tables()
    if not tok:
        broken.append(("Gen/TablesOK.v", tmsg))

    # 4. harness + model
    oracle = {"evaluations": 0, "distinct_nontrivial": 0, "violations": [], "samples": [],
              "histogram": {}, "cases": 0, "notes": {}}
    disagreements = []
    model_skipped = 0
    rc, out = build_harness()
    if rc != 0:
        broken.append(("harness-build", "the harness does not build against /repo's working tree:\n" + out[-3000:]))
        fcntl.flock(lockf, fcntl.LOCK_UN)
    else:
        vhbin = os.path.join(work, "vh")
        shutil.copy(os.path.join(BIN, "vh"), vhbin)
        fcntl.flock(lockf, fcntl.LOCK_UN)
        tmo = 900 if tier == "quick" else 7200
        env2 = dict(ENV)
        if prop == "C19":
            # race-detector build of the same harness
            fcntl.flock(lockf, fcntl.LOCK_EX)
            rc, out = sh("go build -race -tags verif -o %s ./cmd/vh" % os.path.join(BIN, "vhrace"), 1800, cwd=HARNESS)
            if rc == 0:
                shutil.copy(os.path.join(BIN, "vhrace"), vhbin)
            else:
                broken.append(("harness-build(race)", out[-2000:]))
            fcntl.flock(lockf, fcntl.LOCK_UN)
            env2["GORACE"] = "halt_on_error=0 exitcode=0 log_path=%s" % os.path.join(work, "race")
        rc, out = sh([vhbin, prop, "-tier", tier, "-seed", str(seed), "-out", work], tmo, env=env2)
        log.append(out[-2000:])
        try:
            oracle = json.load(open(os.path.join(work, "oracle.json")))
        except Exception as e:
            oracle["violations"] = oracle.get("violations") or []
        racelogs = glob.glob(os.path.join(work, "race.*"))
        if racelogs:
            txt = open(racelogs[0], errors="replace").read()
            oracle.setdefault("violations", [])
            oracle["violations"] = (oracle["violations"] or []) + [{
                "property": prop, "kind": "data-race", "detail": txt[:1500],
                "replay": {"how": "go build -race -tags verif ./cmd/vh && vh C19", "log": txt[:6000]}}]
        if rc != 0:
            # a crash of the harness is a crash of the implementation under test
            # (panics are recovered per case where the property speaks of them)
            broken.append(("harness-run", "vh exited %d:\n%s" % (rc, out[-3000:])))
        cases = os.path.join(work, "cases.txt")
        live = os.path.join(work, "live.txt")
        nlive = 0
        if os.path.exists(live):
            for line in open(live, errors="replace"):
                f = line.rstrip("\n").split("\t")
                if len(f) != 3:
                    continue
                nlive += 1
                if f[2].endswith("model-stack-overflow") or f[2].endswith("model-oom"):
                    model_skipped += 1   # resource limit of the extracted model, not a verdict
                    continue
                if f[1] != f[2]:
                    disagreements.append({"case": f[0][:4000], "impl": f[1][:4000], "model": f[2][:4000]})
        if os.path.exists(cases) and any(not l.startswith("#") for l in open(cases)):
            rc, out = run_model_sharded(cases, os.path.join(work, "model.txt"), work, tmo)
            if rc != 0:
                broken.append(("model-run", "driver exited %d: %s" % (rc, out[-1000:])))
            else:
                impl = open(os.path.join(work, "impl.txt")).read().splitlines()
                model = open(os.path.join(work, "model.txt")).read().splitlines()
                cl = [l for l in open(cases).read().splitlines() if not l.startswith("#")]
                if len(impl) != len(model):
                    broken.append(("model-run", "model produced %d observations for %d cases" % (len(model), len(impl))))
                for i, (x, y) in enumerate(zip(impl, model)):
                    if y.endswith("model-stack-overflow") or y.endswith("model-oom"):
                        model_skipped += 1
                        continue
                    if x != y:
                        disagreements.append({"case": cl[i][:4000], "impl": x[:4000], "model": y[:4000]})
    oracle["violations"] = oracle.get("violations") or []

    # 5. classify
    known = [k for k in load_known() if k["property"] == prop]
    violations, known_hits = [], []
    for v in oracle["violations"]:
        hit = None
        for k in known:
            if v.get("kind") == k["class"]:
                hit = k
        (known_hits if hit else violations).append(v)

    lines = []
    exit_code = 0
    seen_classes = set()
    for v in known_hits:
        if v.get("kind") in seen_classes:
            continue
        seen_classes.add(v.get("kind"))
        n_same = sum(1 for x in known_hits if x.get("kind") == v.get("kind"))
        lines.append("KNOWN-FINDING: property=%s %s (%d inputs of this class in this run): %s" % (
            prop, v.get("kind"), n_same, (v.get("detail") or "")[:200]))
    if violations:
        v = violations[0]
        h = hashlib.sha256(json.dumps(v, sort_keys=True).encode()).hexdigest()[:12]
        rp = os.path.join(OUT, "replays", "%s-%s.json" % (prop, h))
        json.dump({"property": prop, "violation": v, "all": violations[:20],
                   "how": "vh replay: the 'replay' field holds the input/history; see tools/check.py"},
                  open(rp, "w"), indent=1)
        lines.append("VIOLATION property=%s replay=%s" % (prop, rp))
        exit_code = 1
    elif broken or disagreements:
        what = broken[0][0] if broken else "correspondence(model vs implementation)"
        payload = {"property": prop,
                   "no_longer_checks": [b[0] for b in broken] + (["correspondence"] if disagreements else []),
                   "details": [b[1] for b in broken][:5],
                   "disagreements": disagreements[:20],
                   "note": "no input was found on which the property itself fails; the named theorem / "
                           "table lemma / correspondence no longer checks, so the property is no longer shown to hold"}
        h = hashlib.sha256(json.dumps(payload, sort_keys=True).encode()).hexdigest()[:12]
        rp = os.path.join(OUT, "replays", "%s-%s.json" % (prop, h))
        json.dump(payload, open(rp, "w"), indent=1)
        lines.append("VIOLATION property=%s replay=%s no-failing-input-found" % (prop, rp))
        exit_code = 1

    # evidence
    nthm = len(theorems)
    discharged = nthm if ok and not any(b[0].startswith("Props") or b[0] in ("coq-build", "gate") for b in broken) else 0
    obligations = nthm + ntables
    discharged += ntables if tok else 0
    tb = [
        "Coq 8.16.1 kernel (coqc); vm_compute used in finite sweeps and table equalities; no native_compute",
        "Print Assumptions per theorem: " + "; ".join("%s: %s" % (t, a_) for t, a_ in zip(theorems, assumptions)),
        "extraction: ExtrOcamlBasic directives only (bool, option, list, prod, unit, sumbool -> OCaml); N/Z/positive/nat extracted as inductives; no Extract Constant",
        "OCaml 4.13.1 compiler/runtime; ocaml/driver.ml + main.ml (hand-written parsing/printing)",
        "Go harness (harness/cmd/vh, vhlib), generators and implementation oracles; verif-tagged export shims in /repo",
        "correspondence is sampled: model = code only on the cases run (projected observables)",
    ] + cfg.get("trusted_extra", [])
    if coqchk_axioms is not None:
        tb.append("coqchk -o: " + coqchk_axioms.replace("\n", " | ")[-1500:])
    ev = {
        "property_id": prop, "tier": tier, "seed": seed, "level": "proof",
        "coverage": {
            "obligations": max(obligations, 1), "discharged": discharged,
            "checker_cmd": "cd /verif/coq && make -j16 && coqc -Q . V Props/%s.v (+ Gen/TablesOK.v)%s" % (
                prop, "; coqchk -silent -o" if tier == "thorough" else ""),
            "trusted_base": tb,
            "theorems": theorems,
            "evaluations": int(oracle.get("evaluations", 0)),
            "distinct_nontrivial": int(oracle.get("distinct_nontrivial", 0)),
            "rule": cfg["rule"],
            "samples": (oracle.get("samples") or [])[:8] or [{"theorem": t} for t in theorems[:4]],
            "correspondence_cases": int(oracle.get("cases", 0)),
            "correspondence_disagreements": len(disagreements),
            "correspondence_model_skipped": model_skipped,
            "table_lemmas": ntables,
            "input_distribution": oracle.get("histogram", {}),
            "explanation": cfg["explanation"],
            "notes": oracle.get("notes", {}),
            "exhaustive": False,
        },
        "assumptions": cfg.get("assumptions", []),
        "wall_s": round(time.time() - t0, 1),
        "violations": len(violations) + (1 if (not violations and (broken or disagreements)) else 0),
    }
    json.dump(ev, open(os.path.join(OUT, "evidence", prop + ".json"), "w"), indent=1)
    for l in lines:
        print(l)
    print("%s tier=%s theorems=%d/%d tables=%d cases=%d disagreements=%d oracle_evals=%d oracle_violations=%d known=%d wall=%.0fs" % (
        prop, tier, discharged - (ntables if tok else 0), nthm, ntables, int(oracle.get("cases", 0)), len(disagreements),
        int(oracle.get("evaluations", 0)), len(violations), len(known_hits), time.time() - t0))
    if broken:
        for b in broken[:3]:
            print("BROKEN %s: %s" % (b[0], b[1][-600:].replace("\n", " | ")))
    sys.exit(exit_code)


if __name__ == "__main__":
    main()
