#!/usr/bin/env python3
"""Confirm a seeded change produced by a sub-agent and run the checks on it.

  tools/seed_eval.py <agent_out_dir> <k> <seed_id> <property> [more properties to run...]

1. in a scratch worktree of /repo: clean tree + demo passes; patched tree builds, the
   existing test suite passes, the demo fails
2. run the quick checks of the given properties against the patched scratch worktree
   (tools/check.py alternative-root mode, VERIF_ALT: /repo itself is never touched, so
   several evaluations may run at the same time)
3. store /verif/seeded/<seed_id>/{patch.diff, demo_test.go, meta.json}
"""
import json, os, re, shutil, subprocess, sys, time
out_dir, k, seed_id, props = sys.argv[1], sys.argv[2], sys.argv[3], sys.argv[4:]
ENV = dict(os.environ, GOFLAGS="-mod=mod", GOPROXY="off", GOSUMDB="off", GOTOOLCHAIN="local")
def sh(cmd, cwd=None, timeout=1800):
    p = subprocess.run(cmd, shell=True, cwd=cwd, env=ENV, stdout=subprocess.PIPE, stderr=subprocess.STDOUT, timeout=timeout)
    return p.returncode, p.stdout.decode("utf-8", "replace")
patch = os.path.join(out_dir, "mutant%s.diff" % k)
demo = os.path.join(out_dir, "demo%s_test.go" % k)
notes = os.path.join(out_dir, "notes%s.txt" % k)
demo_src = open(demo).read()
# package directory of the demo: from its package clause / a comment
m = re.search(r"^package\s+(\w+)", demo_src, re.M)
pkg = m.group(1).replace("_test", "")
cand = {"flate": "flate", "brotli": "brotli", "bzip2": "bzip2", "xflate": "xflate", "meta": "xflate/internal/meta",
        "prefix": "internal/prefix", "internal": "internal"}
pkgdir = cand.get(pkg, pkg)
mm = re.search(r"(?:goes in|place[d]? in|directory)[^\n]*?((?:xflate/internal/meta|internal/prefix|xflate|flate|brotli|bzip2|internal)/?)", demo_src)
if mm:
    pkgdir = mm.group(1).rstrip("/")
tests = re.findall(r"^func (Test\w+)\(", demo_src, re.M)
run_re = "^(" + "|".join(tests) + ")$" if tests else "."
wt = "/tmp/seedwt_%s" % seed_id
sh("git -C /repo worktree remove --force %s" % wt)
rc, o = sh("git -C /repo worktree add -q %s HEAD" % wt)
res = {"seed_id": seed_id, "breaks": props[0], "patch": patch, "pkgdir": pkgdir}
try:
    shutil.copy(demo, os.path.join(wt, pkgdir, "zz_demo_test.go"))
    rc, o = sh("go test %s -count=1 -run '%s' ./%s/" % ("-race" if seed_id.startswith("C19") else "", run_re, pkgdir), cwd=wt)
    res["demo_on_clean"] = "pass" if rc == 0 else "FAIL"
    res["demo_on_clean_tail"] = o[-400:]
    os.remove(os.path.join(wt, pkgdir, "zz_demo_test.go"))
    rc, o = sh("git apply %s" % patch, cwd=wt)
    res["patch_applies"] = rc == 0
    rc, o = sh("go build ./... && go test -count=1 ./flate/ ./brotli/ ./bzip2/ ./xflate/... ./internal/prefix/ ./internal/", cwd=wt)
    res["suite_on_mutant"] = "pass" if rc == 0 else "FAIL"
    res["suite_tail"] = o[-300:]
    shutil.copy(demo, os.path.join(wt, pkgdir, "zz_demo_test.go"))
    rc, o = sh("go test %s -count=1 -run '%s' ./%s/" % ("-race" if seed_id.startswith("C19") else "", run_re, pkgdir), cwd=wt)
    res["demo_on_mutant"] = "fail" if rc != 0 else "PASSES(not a mutant)"
    res["demo_on_mutant_tail"] = o[-500:]
except Exception as e:
    res["exception"] = repr(e)
confirmed = res.get("demo_on_clean") == "pass" and res.get("suite_on_mutant") == "pass" and res.get("demo_on_mutant") == "fail"
res["confirmed"] = confirmed
# run the checks against the patched worktree (alternative root), /repo untouched
det = {}
alt = "/tmp/seedalt_%s" % seed_id
try:
    if confirmed:
        demo_in_wt = os.path.join(wt, pkgdir, "zz_demo_test.go")
        if os.path.exists(demo_in_wt):
            os.remove(demo_in_wt)
        shutil.rmtree(alt, ignore_errors=True)
        os.makedirs(alt)
        os.symlink(wt, os.path.join(alt, "repo"))
        env2 = dict(ENV, VERIF_ALT=alt)
        for p in props:
            t0 = time.time()
            pr = subprocess.run("tools/check.py %s --tier quick" % p, shell=True, cwd="/verif", env=env2,
                                stdout=subprocess.PIPE, stderr=subprocess.STDOUT, timeout=3000)
            rc, o = pr.returncode, pr.stdout.decode("utf-8", "replace")
            line = [l for l in o.splitlines() if l.startswith("VIOLATION")]
            det[p] = {"exit": rc, "violation_line": line[:1], "summary": [l for l in o.splitlines() if l.startswith(p + " tier")][:1], "wall": round(time.time() - t0)}
            if line:
                m2 = re.search(r"replay=(\S+)", line[0])
                if m2 and os.path.exists(m2.group(1)):
                    try:
                        rj = json.load(open(m2.group(1)))
                        v = rj.get("violation") or {}
                        det[p]["kind"] = v.get("kind") or rj.get("no_longer_checks")
                        det[p]["detail"] = (v.get("detail") or "")[:300]
                    except Exception:
                        pass
finally:
    sh("git -C /repo worktree remove --force %s" % wt)
    shutil.rmtree(alt, ignore_errors=True)
res["detection"] = det
sd = "/verif/seeded/%s" % seed_id
os.makedirs(sd, exist_ok=True)
if confirmed:
    shutil.copy(patch, os.path.join(sd, "patch.diff"))
    shutil.copy(demo, os.path.join(sd, "demo_test.go"))
    meta = {"seed_id": seed_id, "breaks_property": props[0], "demo_package_dir": pkgdir,
            "needs_to_manifest": open(notes).read()[:3000] if os.path.exists(notes) else "",
            "confirmed_by": "tools/seed_eval.py: demo passes on the clean tree, existing test suite passes on the mutated tree, demo fails on the mutated tree",
            "checks_run": det,
            "detected_by": [p for p, d in det.items() if d["exit"] != 0]}
    json.dump(meta, open(os.path.join(sd, "meta.json"), "w"), indent=1)
print(json.dumps({k_: v for k_, v in res.items() if not k_.endswith("_tail")}, indent=1))
if not confirmed:
    print(json.dumps({k_: v for k_, v in res.items() if k_.endswith("_tail")}, indent=1))
