#!/usr/bin/env python3
"""Evaluate every finished seeded change of a round directory, one after the other.

  tools/seed_batch.py <round-dir> [prop ...]

For each <round-dir>/out_<prop>/mutant<k>.diff not yet evaluated (marker file .evaluated<k>)
runs tools/seed_eval.py with the property and its related checks (alternative-root mode:
/repo is not touched), JOBS (default 4) evaluations at a time.
"""
import os, re, subprocess, sys, glob
rd = sys.argv[1]
only = sys.argv[2:]
RELATED = {
    "C01": ["C01", "C10", "C11", "C14"], "C02": ["C02", "C08"], "C03": ["C03", "C04"], "C04": ["C04", "C03", "C20"],
    "C05": ["C05", "C06", "C07", "C14"], "C06": ["C06", "C05", "C12"], "C07": ["C07", "C05"],
    "C08": ["C08"], "C09": ["C09", "C10"], "C10": ["C10", "C09"], "C11": ["C11", "C10"],
    "C12": ["C12", "C05", "C13"], "C13": ["C13", "C14", "C12"], "C14": ["C14"], "C15": ["C15"],
    "C16": ["C16", "C05"], "C17": ["C17", "C07"], "C18": ["C18", "C14"], "C19": ["C19"], "C20": ["C20", "C04", "C13"],
}
def slug(s):
    s = re.sub(r"[^a-zA-Z0-9]+", "-", s.lower()).strip("-")
    return "-".join(s.split("-")[:7])
jobs = []
for od in sorted(glob.glob(os.path.join(rd, "out_*"))):
    prop = os.path.basename(od)[4:]
    if only and prop not in only:
        continue
    for k in ("1", "2"):
        patch = os.path.join(od, "mutant%s.diff" % k)
        mark = os.path.join(od, ".evaluated%s" % k)
        notes = os.path.join(od, "notes%s.txt" % k)
        if not os.path.exists(patch) or os.path.exists(mark) or not os.path.exists(notes):
            continue
        title = open(notes).readline()
        idea = title.split(":")[-1] if ":" in title else title.split("--")[-1]
        sid = "%s-r%s-%s" % (prop, os.environ.get("ROUND", "5"), slug(idea) or ("m" + k))
        jobs.append((od, k, sid, prop, mark))

def run(job):
    od, k, sid, prop, mark = job
    p = subprocess.run(["tools/seed_eval.py", od, k, sid] + RELATED.get(prop, [prop]), cwd="/verif",
                       stdout=subprocess.PIPE, stderr=subprocess.STDOUT)
    out = p.stdout.decode("utf-8", "replace")
    open(mark, "w").write(out)
    m = re.search(r'"confirmed": (\w+)', out)
    det = re.findall(r'"(C\d\d)": \{\s*"exit": (\d)', out)
    print("== %s k=%s -> %s confirmed=%s detection=%s" % (prop, k, sid, m.group(1) if m else "?", det), flush=True)

from concurrent.futures import ThreadPoolExecutor
with ThreadPoolExecutor(int(os.environ.get("JOBS", "4"))) as ex:
    list(ex.map(run, jobs))
