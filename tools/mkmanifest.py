#!/usr/bin/env python3
"""Regenerate MANIFEST.json from tools/propcfg.py (claimed properties) and
properties.jsonl (everything else is listed under not_applicable with the
current reason)."""
import json, os, subprocess, sys
sys.path.insert(0, "/verif/tools")
from propcfg import PROPS, NOT_YET
ids = [json.loads(l)["id"] for l in open("/verif/properties.jsonl")]
hooks_commits = []
try:
    out = subprocess.run(["git", "-C", "/repo", "log", "--format=%H %s"], stdout=subprocess.PIPE).stdout.decode()
    hooks_commits = [l.split()[0] for l in out.splitlines() if " verif:" in l or " hook:" in l]
except Exception:
    pass
checks = []
for i in ids:
    if i in PROPS:
        c = PROPS[i]
        checks.append({
            "property_id": i,
            "quick_cmd": "tools/check.py %s --tier quick" % i,
            "thorough_cmd": "tools/check.py %s --tier thorough" % i,
            "evidence_file": "/verif/evidence/%s.json" % i,
            "replay_cmd_template": "cat {path}",
            "engine": "rocq-model",
            "level_claimed": {"category": "proof", "text": c["level_text"], "design_ref": c.get("design_ref", "DESIGN.md section 4, " + i)},
            "level_note": c["level_note"],
            "technique": c.get("technique", "machine-checked proof in Rocq (Coq 8.16.1) over a Gallina model tied to /repo by generated tables + extracted-model correspondence"),
        })
m = {
    "version": 1,
    "setup_cmd": "tools/setup.sh",
    "hooks": {
        "guard": "verif",
        "enable": "go build -tags verif (add-only files *_verif.go / verif_export.go under /repo, build tag `verif`)",
        "baseline_off_cmd": "for m in $(cat /w/out/gomods.txt); do MF=$(cd /repo/$m && . /w/out/goenv.sh && gomodflag); (cd /repo/$m && go test $MF -json -vet=off -count=1 -timeout 25m ./...); done",
        "source_commits": hooks_commits,
        "add_only": True,
    },
    "engines": [{
        "name": "rocq-model", "path": "/verif/coq",
        "serves_properties": [i for i in ids if i in PROPS],
        "kind_free_text": "Coq 8.16.1 development (models + theorems), extracted to OCaml (bin/driver); Go harness (harness/cmd/vh) runs the real packages on the same cases; tools/check.py orchestrates proofs, table obligations, correspondence and the failing-input search",
    }],
    "checks": checks,
    "notes": "See DESIGN.md. known_findings.txt lists genuine defects (fixed: / known:).",
    "not_applicable": [{"property_id": i, "reason": NOT_YET.get(i, "check not built yet in this session; see DESIGN.md section 4")} for i in ids if i not in PROPS],
}
json.dump(m, open("/verif/MANIFEST.json", "w"), indent=1)
print("claimed:", [c["property_id"] for c in checks])
