#!/bin/bash
# Scratch workspace for a proof / model sub-agent: a built copy of the Coq
# development, the OCaml driver sources, the Go harness (pointing at its own
# worktree of /repo) and a build script with the paths adjusted.
#   tools/mkagentws.sh <name>      -> /tmp/ag_<name>
# Remove with: git -C /repo worktree remove --force /tmp/ag_<name>/repo; rm -rf /tmp/ag_<name>
set -e
N=$1
W=/tmp/ag_$N
[ -e $W ] && { echo "$W exists"; exit 1; }
mkdir -p $W/bin
cp -r ${COQSRC:-/tmp/coqbase} $W/coq
mkdir -p $W/ocaml
cp /verif/ocaml/driver.ml /verif/ocaml/main.ml /verif/ocaml/brotli_driver.ml /verif/ocaml/bzip2_driver.ml $W/ocaml/
cp -r /verif/harness $W/harness
git -C /repo worktree add -q --detach $W/repo HEAD
sed -i "s#=> /repo#=> $W/repo#" $W/harness/go.mod
cat > $W/build_model.sh <<EOF
#!/bin/bash
# extract the Coq models to OCaml and build the driver ($W/bin/driver)
set -e
cd $W/ocaml
rm -f model.ml model.mli
timeout 600 coqc -Q ../coq V ../coq/Extract/Extract.v > extract.log 2>&1 || { cat extract.log; exit 1; }
timeout 900 ocamlfind ocamlopt -w -a -package str model.mli model.ml driver.ml main.ml -o $W/bin/driver
rm -f *.cmi *.cmx *.o
EOF
chmod +x $W/build_model.sh
cat > $W/env.sh <<EOF
export GOFLAGS=-mod=mod GOPROXY=off GOSUMDB=off GOTOOLCHAIN=local CGO_ENABLED=1
export GOCACHE=/verif/.cache/go
export VERIF_DRIVER=$W/bin/driver
EOF
echo $W
