#!/usr/bin/env python3
"""Run (more) quick checks against a stored seeded change and merge the result into its meta.json.

  tools/seed_more.py <seed_id> <prop> [<prop> ...]

Uses the alternative-root mode of tools/check.py on a scratch worktree with the patch
applied: /repo itself is not touched, so several of these can run at the same time.
"""
import json, os, re, shutil, subprocess, sys, time
sid, props = sys.argv[1], sys.argv[2:]
sd = "/verif/seeded/%s" % sid
ENV = dict(os.environ, GOFLAGS="-mod=mod", GOPROXY="off", GOSUMDB="off", GOTOOLCHAIN="local")
wt = "/tmp/seedwt_%s" % sid
alt = "/tmp/seedalt_%s" % sid
subprocess.run("git -C /repo worktree remove --force %s" % wt, shell=True, stdout=subprocess.DEVNULL, stderr=subprocess.DEVNULL)
subprocess.check_call("git -C /repo worktree add -q --detach %s HEAD" % wt, shell=True)
det = {}
try:
    subprocess.check_call("git apply %s/patch.diff" % sd, shell=True, cwd=wt)
    shutil.rmtree(alt, ignore_errors=True)
    os.makedirs(alt)
    os.symlink(wt, os.path.join(alt, "repo"))
    for p in props:
        t0 = time.time()
        pr = subprocess.run("tools/check.py %s --tier quick" % p, shell=True, cwd="/verif", env=dict(ENV, VERIF_ALT=alt),
                            stdout=subprocess.PIPE, stderr=subprocess.STDOUT, timeout=3000)
        o = pr.stdout.decode("utf-8", "replace")
        line = [l for l in o.splitlines() if l.startswith("VIOLATION")]
        det[p] = {"exit": pr.returncode, "violation_line": line[:1], "summary": [l for l in o.splitlines() if l.startswith(p + " tier")][:1], "wall": round(time.time() - t0)}
        if line:
            m2 = re.search(r"replay=(\S+)", line[0])
            if m2 and os.path.exists(m2.group(1)):
                try:
                    rj = json.load(open(m2.group(1)))
                    v = rj.get("violation") or {}
                    det[p]["kind"] = v.get("kind") or rj.get("no_longer_checks")
                    det[p]["detail"] = (v.get("detail") or "")[:300]
                except Exception:
                    pass
finally:
    subprocess.run("git -C /repo worktree remove --force %s" % wt, shell=True)
    shutil.rmtree(alt, ignore_errors=True)
mf = os.path.join(sd, "meta.json")
m = json.load(open(mf))
m.setdefault("checks_run", {}).update(det)
m["detected_by"] = [p for p, d in m["checks_run"].items() if d["exit"] != 0]
json.dump(m, open(mf, "w"), indent=1)
print(sid, {p: (d["exit"], d.get("kind")) for p, d in det.items()})
