#!/usr/bin/env python3
"""Prepare a scratch worktree and the prompt for a seeded-change sub-agent.

  tools/mkmutant_prompt.py <round-dir> <property>

Creates <round-dir>/wt_<prop> (git worktree of /repo HEAD) and <round-dir>/out_<prop>,
prints the prompt: the text of the property only (nothing from /verif), the ideas already
used by earlier seeded changes for this property (titles only), and the deliverable format
tools/seed_eval.py expects.
"""
import glob, json, os, subprocess, sys
rd, prop = sys.argv[1], sys.argv[2]
os.makedirs(rd, exist_ok=True)
wt = os.path.join(rd, "wt_" + prop)
out = os.path.join(rd, "out_" + prop)
os.makedirs(out, exist_ok=True)
if not os.path.exists(wt):
    subprocess.check_call(["git", "-C", "/repo", "worktree", "add", "-q", "--detach", wt, "HEAD"])
p = None
for l in open("/verif/properties.jsonl"):
    d = json.loads(l)
    if d["id"] == prop:
        p = d
used = []
for mf in sorted(glob.glob("/verif/seeded/%s-*/meta.json" % prop)):
    m = json.load(open(mf))
    first = (m.get("needs_to_manifest") or "").strip().split("\n")[0]
    used.append("- %s: %s" % (m["seed_id"], first[:160]))
anch = p.get("anchors", {})
print("""You are testing how well a verification harness detects regressions in the Go library dsnet/compress
(pure-Go compression codecs). Your own scratch copy of the repository is the git worktree
{wt} (work ONLY there and in {out}; never touch /repo or /verif, and do not read /verif).
Do NOT use `git stash` (the stash is shared by all worktrees of the repository; other agents work in sibling worktrees):
use `git diff > file`, `git checkout -- .`, `git apply file` instead.
Go runs offline: in every shell call first `export GOFLAGS=-mod=mod GOPROXY=off GOSUMDB=off GOTOOLCHAIN=local`.

PROPERTY {id} — {title}
Statement: {stmt}
Quantified over: {quant}
Why the existing tests cannot settle it: {why}
Anchored in: {files}
Mechanisms: {mech}

TASK: produce TWO different changes ("mutants") to the library source (not to tests) such that each
 (a) still compiles, and the repository's existing test suite still passes with it
     (`cd {wt} && go build ./... && go test -count=1 ./...`; the xflate/ and internal/ packages are part of the same module),
 (b) BREAKS the property above in a way a user could be hurt by,
 (c) looks like something a maintainer could plausibly commit (an optimisation, a refactoring, a "simplification",
     a half-finished feature), a few lines to a few dozen lines,
 (d) needs something SPECIFIC to manifest: a particular interleaving, a fault at a particular point, a multi-step sequence
     of operations, an unusual input, or two cooperating sites that each look fine alone — NOT something ordinary use
     would expose at once (if `go test` or a trivial round trip shows it, it is too easy),
 (e) is different in idea from the changes already used for this property:
{used}
For each mutant k in {{1,2}} deliver in {out}:
  mutant<k>.diff   — `git diff` of the change against HEAD (apply-able with `git apply` at the repository root); revert the
                     worktree (`git checkout -- .`) between the two mutants so each diff is independent;
  demo<k>_test.go  — a Go test file (external test package, e.g. `package flate_test`, placed in the package directory it
                     tests — say in a comment on its first line which directory it goes in, e.g. `// goes in xflate/`) that
                     PASSES on the unchanged tree and FAILS with the mutant, using only the public API (plus standard library);
  notes<k>.txt     — first line: a one-line title "MUTANT k ({id}) -- <file>, <function>: <idea>"; then what the change is, why
                     it is wrong, exactly what is needed for it to manifest, why the existing tests miss it.
Verify all of (a), (b) yourself: run the full existing test suite with each mutant applied (it must pass), run the demo on the
clean tree (must pass) and on the mutated tree (must fail). Leave the worktree clean (`git checkout -- .`, remove the demo files)
when done. Final answer: a short table (mutant, file/function, idea, what it needs to manifest, test-suite result, demo result).
""".format(wt=wt, out=out, id=prop, title=p["title"], stmt=p["statement"], quant=p["quantifier"]["text"],
           why=p["why_tests_cant"], files=", ".join(anch.get("files", [])),
           mech="; ".join("%s (%s)" % (m["name"], m["where"]) for m in anch.get("mechanism", [])),
           used="\n".join(used) or "  (none yet)"))
