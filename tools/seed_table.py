#!/usr/bin/env python3
"""Rewrite the table of seeded changes at the end of DESIGN.md from seeded/*/meta.json."""
import glob, json
rows = []
for mf in sorted(glob.glob('/verif/seeded/*/meta.json')):
    m = json.load(open(mf))
    need = (m.get('needs_to_manifest') or '').strip().split('\n')[0][:110]
    def kind(d):
        k = d.get('kind')
        if isinstance(k, list):
            k = ",".join(k)
        return k or 'violation'
    det = "; ".join("%s: %s" % (p, kind(d)) for p, d in m['checks_run'].items() if d['exit'] != 0) or "**missed**"
    rows.append("| %s | %s | %s | %s |" % (m['seed_id'], m['breaks_property'], need.replace('|', '/'), det))
tab = "| seeded change | breaks | needs | detected by (quick check: oracle that fired) |\n|---|---|---|---|\n" + "\n".join(rows)
p = '/verif/DESIGN.md'
s = open(p).read()
i = s.index('| seeded change | breaks | needs |')
open(p, 'w').write(s[:i] + tab + '\n')
print(len(rows), "rows;", sum('missed' in r for r in rows), "missed")
