(* Hand-written driver (trusted): parses one case per line, calls the
   extracted model, prints one canonical observation line per case. *)
open Model

(* ---- conversions between OCaml ints / strings and extracted numbers ---- *)
let rec pos_of_int (n : int) : positive =
  if n = 1 then XH
  else if n land 1 = 0 then XO (pos_of_int (n lsr 1))
  else XI (pos_of_int (n lsr 1))
let n_of_int (n : int) : n = if n = 0 then N0 else Npos (pos_of_int n)
let rec int_of_pos (p : positive) : int =
  match p with XH -> 1 | XO q -> 2 * int_of_pos q | XI q -> 2 * int_of_pos q + 1
let int_of_n (x : n) : int = match x with N0 -> 0 | Npos p -> int_of_pos p
let z_of_int (i : int) : z =
  if i = 0 then Z0 else if i > 0 then Zpos (pos_of_int i) else Zneg (pos_of_int (-i))
let int_of_z (x : z) : int =
  match x with Z0 -> 0 | Zpos p -> int_of_pos p | Zneg p -> - (int_of_pos p)
let rec nat_of_int (i : int) : nat = if i <= 0 then O else S (nat_of_int (i - 1))

(* decimal string of an N that may exceed 63 bits *)
let n_to_string (x : n) : string =
  (* little-endian base-10 digits, double-and-add over the bits MSB first *)
  let bits = let rec go p acc = match p with
    | XH -> true :: acc | XO q -> go q (false :: acc) | XI q -> go q (true :: acc) in
    match x with N0 -> [] | Npos p -> List.rev (go p []) |> List.rev in
  ignore bits;
  match x with
  | N0 -> "0"
  | Npos p ->
    let rec msb_first p acc = match p with
      | XH -> true :: acc | XO q -> msb_first q (false :: acc) | XI q -> msb_first q (true :: acc) in
    let bl = msb_first p [] in
    let digits = ref [0] in
    let double_add carry0 =
      let carry = ref carry0 in
      digits := List.map (fun d -> let v = 2 * d + !carry in carry := v / 10; v mod 10) !digits;
      if !carry > 0 then digits := !digits @ [!carry] in
    List.iter (fun b -> double_add (if b then 1 else 0)) bl;
    String.concat "" (List.rev_map string_of_int !digits)

let n_of_string (s : string) : n =
  (* parse decimal possibly above 2^62: build by repeated *10 + d on extracted N *)
  let ten = n_of_int 10 in
  let acc = ref N0 in
  String.iter (fun c ->
    let d = Char.code c - 48 in
    acc := N.add (N.mul !acc ten) (n_of_int d)) s;
  !acc

let z_of_string (s : string) : z =
  if String.length s > 0 && s.[0] = '-' then
    (match n_of_string (String.sub s 1 (String.length s - 1)) with
     | N0 -> Z0 | Npos p -> Zneg p)
  else (match n_of_string s with N0 -> Z0 | Npos p -> Zpos p)
let z_to_string (x : z) : string =
  match x with Z0 -> "0" | Zpos p -> n_to_string (Npos p) | Zneg p -> "-" ^ n_to_string (Npos p)

let hexval c = match c with
  | '0'..'9' -> Char.code c - 48 | 'a'..'f' -> Char.code c - 87
  | 'A'..'F' -> Char.code c - 55 | _ -> failwith "hex"
let bytes_of_hex (s : string) : n list =
  if s = "-" then [] else begin
    let l = String.length s / 2 in
    let r = ref [] in
    for i = l - 1 downto 0 do
      r := n_of_int (16 * hexval s.[2*i] + hexval s.[2*i+1]) :: !r
    done; !r end
let hex_of_bytes (l : n list) : string =
  if l = [] then "-" else begin
    let b = Buffer.create 64 in
    List.iter (fun x -> Buffer.add_string b (Printf.sprintf "%02x" (int_of_n x))) l;
    Buffer.contents b end

let err_name (e : err) : string = match e with
  | EEOF -> "EOF" | EUEOF -> "UEOF" | ECorrupted -> "Corrupted" | EDeprecated -> "Deprecated"
  | EInvalid -> "Invalid" | EInternal -> "Internal" | EClosed -> "Closed"
  | EClosedPipe -> "ClosedPipe" | ESrc t -> "Src" ^ string_of_int (int_of_n t)
  | EPanic -> "Panic" | EFuel -> "Fuel"
let oerr_name (o : err option) : string = match o with None -> "nil" | Some e -> err_name e

let fmode_of_int i = match i with 0 -> FinalNil | 1 -> FinalMeta | _ -> FinalStream
let int_of_fmode m = match m with FinalNil -> 0 | FinalMeta -> 1 | FinalStream -> 2

let split_ws (s : string) : string list =
  List.filter (fun x -> x <> "") (String.split_on_char ' ' s)

let handlers : (string, string list -> string) Hashtbl.t = Hashtbl.create 64
let register name f = Hashtbl.replace handlers name f

let () =
  register "menc" (fun args -> match args with
    | [mode; hex] ->
      (match meta_encode (bytes_of_hex hex) (fmode_of_int (int_of_string mode)) with
       | Some b -> "ok " ^ hex_of_bytes b
       | None -> "none")
    | _ -> "badargs");
  register "mblk" (fun args -> match args with
    | [mode; hex] ->
      (match encode_block (bytes_of_hex hex) (fmode_of_int (int_of_string mode)) with
       | Some b -> "ok " ^ hex_of_bytes b
       | None -> "none")
    | _ -> "badargs");
  register "mdec" (fun args -> match args with
    | [hex] ->
      let r = meta_decode (bytes_of_hex hex) in
      (match r.mr_err with
       | None -> Printf.sprintf "nil %s %d %d %d" (hex_of_bytes r.mr_payload)
                   (int_of_fmode r.mr_final) (int_of_n r.mr_blocks) (int_of_n r.mr_used)
       | Some e -> Printf.sprintf "%s %s" (err_name e) (hex_of_bytes r.mr_payload))
    | _ -> "badargs");
  register "mrs" (fun args -> match args with
    | [hex] -> (match reverse_search (bytes_of_hex hex) with
        | None -> "-1" | Some i -> string_of_int (int_of_n i))
    | _ -> "badargs");
  register "inflate" (fun args -> match args with
    | [hex] ->
      let r = inflate (bytes_of_hex hex) in
      (match r.ir_err with
       | None -> Printf.sprintf "nil %s %d" (hex_of_bytes r.ir_out) (int_of_n r.ir_used)
       | Some e -> Printf.sprintf "%s %s" (err_name e) (hex_of_bytes r.ir_out))
    | _ -> "badargs");
  register "mhl" (fun args -> match args with
    | [z; o] -> let (h, inv) = computeHuffLen (n_of_int (int_of_string z)) (n_of_int (int_of_string o)) in
      Printf.sprintf "%d %b" (int_of_n h) inv
    | _ -> "badargs")

(* ---- external calls: answered by the parent process over stdin/stdout ---- *)
let ext_memo : (string, string) Hashtbl.t = Hashtbl.create 1024
let ext_call (req : string) : string =
  match Hashtbl.find_opt ext_memo req with
  | Some a -> a
  | None ->
    print_string ("EXT " ^ req ^ "\n"); Stdlib.flush Stdlib.stdout;
    let a = Stdlib.input_line Stdlib.stdin in
    Hashtbl.replace ext_memo req a; a

let cops_to_string (ops : cop list) : string =
  String.concat "," (List.map (fun o -> match o with
    | CW d -> "w:" ^ hex_of_bytes d | CF -> "f") ops)

let ext_deflate (lvl : z) (ops : cop list) : n list =
  if ops = [] then [] else
  bytes_of_hex (ext_call (Printf.sprintf "deflate %d %s" (int_of_z lvl) (cops_to_string ops)))

let flushmode_of_int i = match i with 0 -> FlushSync | 1 -> FlushFull | 2 -> FlushIndex | _ -> FlushInvalid

let colon s = String.split_on_char ':' s
let want_log = ref false

let () =
  (* xw <lvl> <chunk> <idx> op... ; op = w:<hex> | f:<mode> | c *)
  register "xw" (fun args -> match args with
    | lvl :: chunk :: idx :: ops ->
      (match new_writer (z_of_string lvl) (z_of_string chunk) (z_of_string idx) with
       | Inl e -> "new:refused"
       | Inr s0 ->
         let wops = List.map (fun o -> match colon o with
           | ["w"; h] -> WWrite (bytes_of_hex h)
           | ["f"; m] -> WFlush (flushmode_of_int (int_of_string m))
           | _ -> WClose) ops in
         let (obs, s) = wrun ext_deflate s0 wops in
         let os = String.concat "," (List.map (fun (n, e) ->
           Printf.sprintf "%d:%s" (int_of_n n) (oerr_name e)) obs) in
         Printf.sprintf "%s|%d|%d|%s" (if os = "" then "-" else os) (int_of_n s.w_in) (int_of_n s.w_out) (hex_of_bytes s.w_sink))
    | _ -> "badargs");
  (* xr <hexdata> op... ; op = s:<off>:<whence> | r:<n> | c *)
  register "xr" (fun args -> match args with
    | hex :: ops ->
      (match open_reader (bytes_of_hex hex) with
       | Inl e -> "open:" ^ err_name e
       | Inr s0 ->
         let rops = List.map (fun o -> match colon o with
           | ["s"; off; wh] -> RSeek (z_of_string off, z_of_string wh)
           | ["r"; n] -> RRead (n_of_string n)
           | _ -> RClose) ops in
         let (obs, s) = rrun s0 rops in
         let os = String.concat "," (List.map (fun o -> match o with
           | OSeek (p, e) -> Printf.sprintf "s:%s:%s" (if e = None then z_to_string p else "0") (oerr_name e)
           | ORead (b, e) -> Printf.sprintf "r:%s:%s" (hex_of_bytes b) (oerr_name e)
           | OClose e -> Printf.sprintf "c:%s" (oerr_name e)) obs) in
         let lg = String.concat ";" (List.map (fun (o, l) ->
           Printf.sprintf "%d+%d" (int_of_n o) (int_of_n l)) s.r_log) in
         Printf.sprintf "open:nil|%s|%s" (if os = "" then "-" else os) (if !want_log then lg else ""))
    | _ -> "badargs");
  register "xrlog" (fun args ->
    want_log := true;
    let r = (Hashtbl.find handlers "xr") args in
    want_log := false; r)

let () =
  register "bzdec" (fun args -> match args with
    | [hex] ->
      let r = bzip2_decode (bytes_of_hex hex) in
      (match r.bz_err with
       | None -> Printf.sprintf "nil %s %d" (hex_of_bytes r.bz_out) (int_of_n r.bz_used)
       | Some e -> Printf.sprintf "%s %s" (err_name e) (hex_of_bytes r.bz_out))
    | _ -> "badargs");
  register "bzenc" (fun args -> match args with
    | [lvl; hex] -> hex_of_bytes (bzip2_encode (n_of_int (int_of_string lvl)) (bytes_of_hex hex))
    | _ -> "badargs")

(* brotli: the static dictionary is a parameter of the model; it is read
   from the file named by VERIF_BRDICT (written by the harness from
   libbrotlicommon) on first use *)
let brdict : string option ref = ref None
let get_brdict () : string =
  match !brdict with
  | Some d -> d
  | None ->
    let path = try Sys.getenv "VERIF_BRDICT" with Not_found -> "/verif/bin/brdict.bin" in
    let ic = open_in_bin path in
    let len = in_channel_length ic in
    let d = really_input_string ic len in
    close_in ic; brdict := Some d; d
let byte_n : n array = Array.init 256 n_of_int
let () =
  register "brotli" (fun args -> match args with
    | [hex] ->
      let d = get_brdict () in
      let dl = String.length d in
      let dict_byte (off : n) : n =
        let i = int_of_n off in if i < dl then byte_n.(Char.code d.[i]) else N0 in
      let r = brotli_decode dict_byte (bytes_of_hex hex) in
      (match r.br_err with
       | None -> Printf.sprintf "nil %s %d" (hex_of_bytes r.br_out) (int_of_n r.br_used)
       | Some e -> Printf.sprintf "%s %s" (err_name e) (hex_of_bytes r.br_out))
    | _ -> "badargs")

(* lw <guarded 0|1> <at|-1> <short 0|1> <once 0|1> call... ; call = w|f|c : accept : chunk,chunk,... *)
let () =
  register "lw" (fun args -> match args with
    | g :: at :: sh :: on :: calls ->
      let pl = if at = "-1" then None
               else Some { p_at = n_of_string at; p_short = (sh = "1"); p_once = (on = "1") } in
      let cs = List.map (fun c -> match colon c with
        | [k; acc; chunks] ->
          { c_kind = (match k with "w" -> KWrite | "f" -> KFlush | _ -> KClose);
            c_accept = n_of_string acc;
            c_chunks = (if chunks = "-" then [] else List.map n_of_string (String.split_on_char ',' chunks)) }
        | _ -> { c_kind = KFlush; c_accept = N0; c_chunks = [] }) calls in
      let (obs, w) = wcalls (g = "1") (lw_init pl) cs in
      let os = String.concat "," (List.map (fun (n, e) -> oerr_name e) obs) in
      Printf.sprintf "%s|%s|%s" (if os = "" then "-" else os) (n_to_string w.l_out) (n_to_string w.l_sink.s_len)
    | _ -> "badargs")

let () =
  register "lwcls" (fun args ->
    let r = (Hashtbl.find handlers "lw") args in
    List.hd (String.split_on_char '|' r))

let () =
  register "c15" (fun args -> match args with
    | [hex] ->
      let d = bytes_of_hex hex in
      let cls = int_of_n (c15_class d) in
      (match accepted_content d with
       | None -> Printf.sprintf "%d -" cls
       | Some b -> Printf.sprintf "%d %s" cls (hex_of_bytes b))
    | _ -> "badargs")

let () =
  register "c15acc" (fun args -> match args with
    | [hex] ->
      (match accepted_content (bytes_of_hex hex) with
       | None -> "0 -"
       | Some b -> "A " ^ hex_of_bytes b)
    | _ -> "badargs")

(* genlen <maxbits> <cnt:sym> ... (sorted by count as the caller passes them) ; genpfx <sym:len> ... *)
let () =
  register "genlen" (fun args -> match args with
    | mb :: codes ->
      let cs = List.map (fun c -> match colon c with
        | [a; b] -> (n_of_string a, n_of_string b) | _ -> (N0, N0)) codes in
      (match gen_lengths (n_of_string mb) cs with
       | GLOk l -> "ok " ^ (if l = [] then "-" else String.concat "," (List.map (fun (s, ln) -> n_to_string s ^ ":" ^ n_to_string ln) l))
       | GLInvalid -> "invalid"
       | GLPanic -> "panic")
    | _ -> "badargs");
  register "genpfx" (fun args ->
      let cs = List.map (fun c -> match colon c with
        | [a; b] -> (n_of_string a, n_of_string b) | _ -> (N0, N0)) args in
      (match gen_prefixes cs with
       | GPOk l -> "ok " ^ (if l = [] then "-" else String.concat "," (List.map (fun ((s, ln), v) -> n_to_string s ^ ":" ^ n_to_string ln ^ ":" ^ n_to_string v) l))
       | GPInvalid -> "invalid"))

(* xhonest <hexdata> <hexcontent|-> : the decidable hypothesis of the C07 refinement
   theorem (XFlate/RefineCheck.v honest_stream) for this stream and content.
   xspec <hexcontent|-> op... : the ReadSeeker specification sp_run over the content *)
let () =
  register "xhonest" (fun args -> match args with
    | [hex; chex] ->
      let c = if chex = "-" then [] else bytes_of_hex chex in
      if honest_stream (bytes_of_hex hex) c then "honest" else "NOT-honest"
    | _ -> "badargs");
  register "xspec" (fun args -> match args with
    | chex :: ops ->
      let c = if chex = "-" then [] else bytes_of_hex chex in
      let rops = List.map (fun o -> match colon o with
        | ["s"; off; wh] -> RSeek (z_of_string off, z_of_string wh)
        | ["r"; n] -> RRead (n_of_string n)
        | _ -> RClose) ops in
      let (obs, _) = sp_run c { sp_pos = Z0; sp_err = None } rops in
      let os = String.concat "," (List.map (fun o -> match o with
        | OSeek (p, e) -> Printf.sprintf "s:%s:%s" (if e = None then z_to_string p else "0") (oerr_name e)
        | ORead (b, e) -> Printf.sprintf "r:%s:%s" (hex_of_bytes b) (oerr_name e)
        | OClose e -> Printf.sprintf "c:%s" (oerr_name e)) obs) in
      Printf.sprintf "open:nil|%s|" (if os = "" then "-" else os)
    | _ -> "badargs")

let rec int_of_nat (n : nat) : int = match n with O -> 0 | S m -> 1 + int_of_nat m

(* primpl <hexdata|-> <buffered 0/1> <big 0/1> <fills a,b,..|-> <reads ..|-> op... ;
   op = b:<n> | p | r:<k> | f : implementation-level model of prefix.Reader
   (Prefix/ReaderImpl.v) over a scripted source *)
let () =
  register "primpl" (fun args -> match args with
    | hex :: buffered :: big :: fills :: reads :: ops ->
      let data = if hex = "-" then [] else bytes_of_hex hex in
      let ints s = if s = "-" then [] else List.map (fun x -> nat_of_int (int_of_string x)) (String.split_on_char ',' s) in
      let p0 = init data (buffered = "1") (big = "1") (ints fills) (ints reads) in
      let xops = List.map (fun o -> match colon o with
        | ["b"; n] -> XOp (PBits (n_of_string n))
        | ["r"; k] -> XOp (PRaw (nat_of_int (int_of_string k)))
        | ["p"] -> XOp PPads
        | ["u"; n] -> XPull (n_of_string n)
        | _ -> XOp PFlush) ops in
      let obs = xrun p0 xops in
      (* the harness stops at the first panic *)
      let rec upto acc = function
        | [] -> List.rev acc
        | XObs (OBits (None, br)) :: _ -> List.rev (Printf.sprintf "b:panic:%s" (z_to_string br) :: acc)
        | XObs (OBits (Some v, br)) :: r -> upto (Printf.sprintf "b:%s:%s" (n_to_string v) (z_to_string br) :: acc) r
        | XObs (OPads (v, br)) :: r -> upto (Printf.sprintf "p:%s:%s" (n_to_string v) (z_to_string br) :: acc) r
        | XObs (ORaw (bs, e, br)) :: r ->
          upto (Printf.sprintf "r:%s:%s:%s" (if bs = [] then "-" else hex_of_bytes bs) (n_to_string e) (z_to_string br) :: acc) r
        | XObs (OFlush (off, pos)) :: r -> upto (Printf.sprintf "f:%s:%d" (z_to_string off) (int_of_nat pos) :: acc) r
        | XPulled (e, br) :: r -> upto (Printf.sprintf "u:%d:%s" (if e then 1 else 0) (z_to_string br) :: acc) r in
      String.concat "," (upto [] obs)
    | _ -> "badargs")

(* prspec: same arguments as primpl; does the model's run satisfy the abstract bit-stream
   specification (Prefix/ReaderSpec.v check_model)? *)
let () =
  register "prspec" (fun args -> match args with
    | hex :: buffered :: big :: fills :: reads :: ops ->
      let data = if hex = "-" then [] else bytes_of_hex hex in
      let ints s = if s = "-" then [] else List.map (fun x -> nat_of_int (int_of_string x)) (String.split_on_char ',' s) in
      let pops = List.map (fun o -> match colon o with
        | ["b"; n] -> PBits (n_of_string n)
        | ["r"; k] -> PRaw (nat_of_int (int_of_string k))
        | ["p"] -> PPads
        | _ -> PFlush) ops in
      if check_model data (buffered = "1") (big = "1") (ints fills) (ints reads) pops then "spec-ok" else "SPEC-VIOLATED"
    | _ -> "badargs")

(* wbitw <big 0/1> <sink script a|f<k>:<tag>,...|-> <rest a|f<k>:<tag>> op... ;
   op = b:<v>:<nb> | t:<v>:<nb> | p:<v> | r:<hex|-> | c:<v>:<nb> | d:<v>:<nb> | f | u :
   implementation-level model of prefix.Writer (Prefix/WriterImpl.v) over a scripted sink.
   Observation: per operation outcome:Offset:BitsWritten:<sink calls>/<bytes accepted during
   the operation>, then the final sink contents. *)
let () =
  register "wbitw" (fun args -> match args with
    | big :: script :: rest :: ops ->
      let beh s =
        if s = "a" then SAccept
        else match colon (String.sub s 1 (String.length s - 1)) with
          | [k; tag] -> SFail (nat_of_int (int_of_string k), n_of_string tag)
          | _ -> failwith "sink behaviour" in
      let script = if script = "-" then [] else List.map beh (String.split_on_char ',' script) in
      let p0 = Model.winit script (beh rest) (big = "1") in
      let wops = List.map (fun o -> match colon o with
        | ["b"; v; nb] -> BWBits (n_of_string v, n_of_string nb)
        | ["t"; v; nb] -> BWTryBits (n_of_string v, n_of_string nb)
        | ["c"; v; nb] -> BWChunk (n_of_string v, n_of_string nb)
        | ["d"; v; nb] -> BWTryChunk (n_of_string v, n_of_string nb)
        | ["p"; v] -> BWPads (n_of_string v)
        | ["r"; h] -> BWRaw (bytes_of_hex h)
        | ["f"] -> BWFlush
        | ["u"] -> BWPush
        | _ -> failwith "wbitw op") ops in
      let (obs, pfin) = bwrun p0 wops in
      let en = oerr_name in
      let seen = ref 0 in
      let show_view vw =
        let chunks = vw.v_sink.k_chunks in      (* newest first *)
        let total = List.length chunks in
        let fresh = total - !seen in
        seen := total;
        let rec take n l acc = if n = 0 then acc else match l with [] -> acc | c :: r -> take (n - 1) r (c :: acc) in
        let delta = List.concat (take fresh chunks []) in
        Printf.sprintf "%s:%s:%d/%s" (z_to_string vw.v_offset) (z_to_string vw.v_bits) fresh (hex_of_bytes delta) in
      let show = function
        | OWBits (e, vw) -> Printf.sprintf "b:%s:%s" (en e) (show_view vw)
        | OWTry (ok, vw) -> Printf.sprintf "t:%d:%s" (if ok then 1 else 0) (show_view vw)
        | OWPads vw -> Printf.sprintf "p:%s" (show_view vw)
        | OWRaw (n, e, vw) -> Printf.sprintf "r:%d:%s:%s" (int_of_nat n) (en e) (show_view vw)
        | OWFlush (ret, e, vw) -> Printf.sprintf "f:%s:%s:%s" (z_to_string ret) (en e) (show_view vw)
        | OWPush (n, e, vw) -> Printf.sprintf "u:%s:%s:%s" (n_to_string n) (en e) (show_view vw) in
      let parts = List.map show obs in
      String.concat "," parts ^ " " ^ hex_of_bytes (wsink_data pfin.bw_sink)
    | _ -> "badargs")

(* xk1 <hexchunk|-> <hexdata|-> : contract K1 of the XFLATE round-trip theorems
   (XFlate/RoundTripStmt.v) evaluated on what the REAL compressor emitted after a Flush:
   a sequence of complete non-final blocks for exactly the data, sync marker, >= 5 bytes *)
let () =
  register "xk1" (fun args -> match args with
    | [chex; dhex] ->
      let c = if chex = "-" then [] else bytes_of_hex chex in
      let d = if dhex = "-" then [] else bytes_of_hex dhex in
      let ok_blocks = (match nonfinal_blocks c with
        | Some o -> List.length o = List.length d && List.for_all2 (fun a b -> int_of_n a = int_of_n b) o d
        | None -> false) in
      if ok_blocks && is_sync c && List.length c >= 5 then "k1-ok" else "k1-VIOLATED"
    | _ -> "badargs")

(* wdict <size> <recycled: nil | - | hex | p<cap>:<a>> op... ;
   op = i:<size> | b:<c> | c:<dist>:<len> | t:<dist>:<len> | r:<hex> | R:<n>:<a> | f | h | a
   implementation-level model of flate.dictDecoder (Window/Dict.v) *)
let wd_pat a n = List.init n (fun i -> n_of_int ((a * i + (i lsr 8) + a + 1) land 0xff))
let wd_recycled (s : string) : n list option =
  if s = "nil" then None
  else if s = "-" then Some []
  else if s.[0] = 'p' then Scanf.sscanf s "p%d:%d" (fun c a -> Some (wd_pat a c))
  else Some (bytes_of_hex s)
let wd_op (o : string) : dop = match colon o with
  | ["i"; s] -> OpInit (z_of_string s)
  | ["b"; c] -> OpWriteByte (n_of_int (int_of_string c))
  | ["c"; d; l] -> OpWriteCopy (z_of_string d, z_of_string l)
  | ["t"; d; l] -> OpTryWriteCopy (z_of_string d, z_of_string l)
  | ["r"; h] -> OpWriteRaw (bytes_of_hex h)
  | ["R"; n; a] -> OpWriteRaw (wd_pat (int_of_string a) (int_of_string n))
  | ["f"] -> OpReadFlush
  | ["h"] -> OpHistSize
  | ["a"] -> OpAvailSize
  | _ -> failwith ("wdict op " ^ o)
let () =
  register "wdict" (fun args -> match args with
    | size :: recycled :: ops ->
      let show_obs = function
        | OUnit -> "u" | OCnt n -> z_to_string n | OBytes l -> hex_of_bytes l in
      let show = function
        | Ok ob -> show_obs ob | Panic -> "PANIC" | Hang -> "HANG" | Fuel -> "FUEL" in
      (match dd_init (z_of_string size) (wd_recycled recycled) with
       | Ok st ->
         let (obs, fin) = dd_run st (List.map wd_op ops) in
         let failed = List.exists (function Ok _ -> false | _ -> true) obs in
         let shape = if failed then [] else
           [Printf.sprintf "s:%s:%s:%s:%s:%d" (z_to_string fin.d_len) (z_to_string (d_cap fin))
              (z_to_string fin.d_wr) (z_to_string fin.d_rd) (if fin.d_full then 1 else 0)] in
         String.concat "," ("u" :: List.map show obs @ shape)
       | r -> show (match r with Ok _ -> Ok OUnit | Panic -> Panic | Hang -> Hang | Fuel -> Fuel))
    | _ -> "badargs");
  register "wdspec" (fun args -> match args with
    | size :: recycled :: ops ->
      if check_spec (z_of_string size) (wd_recycled recycled) (List.map wd_op ops)
      then "spec-ok" else "SPEC-VIOLATED"
    | _ -> "badargs")

(* wdictbr <size> <recycled> op... ; op = i:<size> | c:<dist>:<len> | r:<hex> | R:<n>:<a> | f | h | a | l
   implementation-level model of brotli.dictDecoder (Window/DictBr.v) *)
let wdb_op (o : string) : bop = match colon o with
  | ["i"; s] -> BInit (z_of_string s)
  | ["c"; d; l] -> BWriteCopy (z_of_string d, z_of_string l)
  | ["r"; h] -> BWriteRaw (bytes_of_hex h)
  | ["R"; n; a] -> BWriteRaw (wd_pat (int_of_string a) (int_of_string n))
  | ["f"] -> BReadFlush
  | ["h"] -> BHistSize
  | ["a"] -> BAvailSize
  | ["l"] -> BLastBytes
  | _ -> failwith ("wdictbr op " ^ o)
let () =
  register "wdictbr" (fun args -> match args with
    | size :: recycled :: ops ->
      let show_obs = function
        | OUnit -> "u" | OCnt n -> z_to_string n | OBytes l -> hex_of_bytes l in
      let show = function
        | Ok ob -> show_obs ob | Panic -> "PANIC" | Hang -> "HANG" | Fuel -> "FUEL" in
      (match br_init (z_of_string size) (wd_recycled recycled) with
       | Ok st ->
         let (obs, fin) = br_run st (List.map wdb_op ops) in
         let failed = List.exists (function Ok _ -> false | _ -> true) obs in
         let shape = if failed then [] else
           [Printf.sprintf "s:%s:%s:%s:%s:%d" (z_to_string fin.d_len) (z_to_string (d_cap fin))
              (z_to_string fin.d_wr) (z_to_string fin.d_rd) (if fin.d_full then 1 else 0)] in
         String.concat "," ("u" :: List.map show obs @ shape)
       | Panic -> "PANIC" | Hang -> "HANG" | Fuel -> "FUEL")
    | _ -> "badargs")

(* ---- WDECTAB: the lookup tables of internal/prefix (Prefix/DecTable.v) -------------------
   codes = sym:len:val,sym:len:val,... | -
   dectab <z|gSEED> <codes>                      : Decoder.Init over recycled storage, whole dump
   decread <codes> <hex|-> <buffered> <big> <fills|-> <state 0/1> op...   op = s | t | b:<n>
   enctab <codes> <sym,sym,..|->                 : Encoder.Init dump and lookups
   encdec <codes> <big> <sym,sym,...>            : WriteSymbol* then ReadSymbol* *)
let parse_codes (s : string) =
  if s = "-" then [] else
  List.map (fun c -> match colon c with
    | [a; b; v] -> ((n_of_string a, n_of_string b), n_of_string v)
    | _ -> failwith "code") (String.split_on_char ',' s)

let fmt_dump (l : n list) : string =
  let len = List.length l in
  if len <= 3000 then String.concat "," (List.map (fun x -> string_of_int (int_of_n x)) l)
  else begin
    let h = ref 0 in
    List.iter (fun x -> h := ((!h * 1000003) + int_of_n x + 1) land ((1 lsl 40) - 1)) l;
    Printf.sprintf "H%d:%d" len !h
  end

let garbage (seed : int) : n -> n =
  fun i -> n_of_int (((int_of_n i * 2654435761) + seed * 40503 + 12345) land 0xFFFFFFFF)

let old_of_mode (m : string) : n -> n =
  if m = "z" then (fun _ -> N0)
  else garbage (int_of_string (String.sub m 1 (String.length m - 1)))

let rs_name (r : rsres) : string = match r with
  | RSym s -> n_to_string s | RUEOF -> "ueof" | RInvalid -> "invalid" | RPanic -> "panic" | RFuel -> "fuel"

let fmt_dt_obs (state : bool) (o : dt_obs) : string =
  let st bb nb off = if state then Printf.sprintf ":%s:%s:%s" (n_to_string bb) (n_to_string nb) (z_to_string off) else "" in
  match o with
  | DOSym (r, br, bb, nb, off) -> Printf.sprintf "s:%s:%s%s" (rs_name r) (z_to_string br) (st bb nb off)
  | DOTry (r, br, bb, nb, off) ->
    Printf.sprintf "t:%s:%s%s"
      (match r with None -> "panic" | Some None -> "no" | Some (Some s) -> n_to_string s)
      (z_to_string br) (st bb nb off)
  | DOBits (v, br) ->
    Printf.sprintf "b:%s:%s" (match v with None -> "panic" | Some x -> n_to_string x) (z_to_string br)

let () =
  register "dectab" (fun args -> match args with
    | [mode; codes] ->
      let old = old_of_mode mode in
      let old2 = if mode = "z" then old else (fun i -> old (N.add i (n_of_int 7777))) in
      (match dec_init old old2 (parse_codes codes) with
       | IOk d -> "ok " ^ fmt_dump (dec_dump d)
       | IPanic -> "panic"
       | IOutOfModel -> "oom")
    | _ -> "badargs");
  register "decread" (fun args -> match args with
    | codes :: hex :: buffered :: big :: fills :: state :: ops ->
      let data = if hex = "-" then [] else bytes_of_hex hex in
      let ints s = if s = "-" then [] else List.map (fun x -> nat_of_int (int_of_string x)) (String.split_on_char ',' s) in
      (match dec_init (fun _ -> N0) (fun _ -> N0) (parse_codes codes) with
       | IOk d ->
         let p0 = init data (buffered = "1") (big = "1") (ints fills) [] in
         let dops = List.map (fun o -> match colon o with
           | ["s"] -> DSym | ["t"] -> DTry | ["b"; n] -> DBits (n_of_string n) | _ -> failwith "op") ops in
         String.concat "," (List.map (fmt_dt_obs (state = "1")) (dt_run d p0 dops))
       | IPanic -> "init-panic"
       | IOutOfModel -> "init-oom")
    | _ -> "badargs");
  register "enctab" (fun args -> match args with
    | [codes; syms] ->
      (match enc_init (parse_codes codes) with
       | IOk e ->
         let ss = if syms = "-" then [] else List.map n_of_string (String.split_on_char ',' syms) in
         let lk = List.map (fun s -> match enc_lookup e s with
           | None -> "x" | Some (v, nb) -> n_to_string v ^ ":" ^ n_to_string nb) ss in
         "ok " ^ fmt_dump (enc_dump e) ^ " | " ^ String.concat "," lk
       | IPanic -> "panic"
       | IOutOfModel -> "oom")
    | _ -> "badargs");
  register "encdec" (fun args -> match args with
    | [codes; big; syms] ->
      let cs = parse_codes codes in
      let ss = List.map n_of_string (String.split_on_char ',' syms) in
      (match enc_init cs, dec_init (fun _ -> N0) (fun _ -> N0) cs with
       | IOk e, IOk d ->
         (match enc_syms e ss with
          | None -> "enc-panic"
          | Some bits ->
            let bytes = bits_to_bytes bits in
            let bytes = if big = "1" then List.map rev8 bytes else bytes in
            let p0 = init bytes false (big = "1") [] [] in
            let obs = dt_run d p0 (List.map (fun _ -> DSym) ss) in
            hex_of_bytes bytes ^ " " ^ String.concat "," (List.map (fmt_dt_obs false) obs))
       | _, _ -> "init-failed")
    | _ -> "badargs")

(* ---- WRANGE: range coding helpers (Prefix/Range.v) ---- *)
let wr_parse_rcs (s : string) : (n * n) list =
  if s = "-" then [] else
  List.map (fun x -> match colon x with
    | [b; l] -> (n_of_string b, n_of_string l) | _ -> failwith "rcs") (String.split_on_char ',' s)
let wr_fmt_rcs (l : (n * n) list) : string =
  if l = [] then "-" else
  String.concat "," (List.map (fun (b, l) -> n_to_string b ^ ":" ^ n_to_string l) l)
let wr_ns (s : string) : n list =
  if s = "-" then [] else List.map n_of_string (String.split_on_char ',' s)
let wr_res (r : n rres) : string = match r with
  | RgOk s -> n_to_string s | RgPanic -> "P" | RgFuel -> "F"

(* run-length "value x count" *)
let wr_rle (next : unit -> string option) : string =
  let b = Buffer.create 256 in
  let cur = ref "" and cnt = ref 0 and some = ref false in
  let flush () =
    if !cnt > 0 then begin
      if !some then Buffer.add_char b ',';
      Buffer.add_string b (Printf.sprintf "%sx%d" !cur !cnt); some := true end;
    cnt := 0 in
  let rec go () = match next () with
    | None -> ()
    | Some s -> (if !cnt > 0 && s = !cur then incr cnt else begin flush (); cur := s; cnt := 1 end); go () in
  go (); flush ();
  if !some then Buffer.contents b else "-"

let () =
  register "wrmk" (fun args -> match args with
    | [mb; bits] -> wr_fmt_rcs (make_range_codes (n_of_string mb) (wr_ns bits))
    | _ -> "badargs");
  register "wrange" (fun args -> match args with
    | [rcs; ood; wofs] ->
      let rcs = wr_parse_rcs rcs in
      if not (check_valid rcs) then
        "invalid init=" ^ (match re_init rcs with RgOk _ -> "ok" | RgPanic -> "panic" | RgFuel -> "fuel")
      else (match re_init rcs, rcs_base rcs, rcs_end rcs with
        | RgOk re, RgOk lo, RgOk hi ->
          let lut = ref (lut_dump re.re_lut) in
          let lut_s = wr_rle (fun () -> match !lut with
            | [] -> None | x :: r -> lut := r; Some (n_to_string x)) in
          let lo_i = int_of_n lo and hi_i = int_of_n hi in
          let off = ref lo_i in
          let enc_s = wr_rle (fun () ->
            if !off < hi_i then begin
              let s = wr_res (re_encode re (n_of_int !off)) in incr off; Some s end
            else None) in
          let ood_s = String.concat "," ("-" :: List.map (fun o -> wr_res (re_encode re o)) (wr_ns ood)) in
          let woo_s = String.concat "," ("-" :: List.map (fun o ->
            match write_offset re o with
            | RgOk ((_, _), nb) -> n_to_string nb
            | RgPanic -> "P" | RgFuel -> "F") (wr_ns ood)) in
          let wr_s = String.concat "," ("-" :: List.map (fun o ->
            match write_offset re o with
            | RgOk ((s, v), nb) ->
              Printf.sprintf "%s:%s:%s:%s" (n_to_string s) (n_to_string v) (n_to_string nb)
                (wr_res (read_offset rcs s (fun _ -> v)))
            | RgPanic -> "P" | RgFuel -> "F") (wr_ns wofs)) in
          Printf.sprintf "valid base=%s end=%s min=%s lut=%s enc=%s ood=%s woo=%s wr=%s"
            (n_to_string lo) (n_to_string hi) (n_to_string re.re_minBase) lut_s enc_s ood_s woo_s wr_s
        | RgPanic, _, _ -> "valid init=panic"
        | _, _, _ -> "valid init=other")
    | _ -> "badargs")

(* wbzdegen l0 l1 ... : handleDegenerateCodes on a length vector (Bzip2/Degenerate.v);
   wbzbuild l0 l1 ... : the code list ReadPrefixCodes initialises the decoder with *)
let () =
  let fmt_codes l =
    "ok " ^ (if l = [] then "-" else String.concat "," (List.map (fun ((s, ln), v) ->
      n_to_string s ^ ":" ^ n_to_string ln ^ ":" ^ n_to_string v) l)) in
  let lens_of args = List.filter_map (fun a -> if a = "-" then None else Some (n_of_string a)) args in
  register "wbzdegen" (fun args ->
    match handle_degenerate (lens_of args) with
    | DOk l -> fmt_codes l
    | DPanic -> "panic"
    | DFuel -> "fuel"
    | DUnmodelled -> "unmodelled");
  register "wbzbuild" (fun args ->
    match build_codes (lens_of args) with
    | BOk l -> fmt_codes l
    | BInternal -> "err Internal"
    | BPanic -> "panic"
    | BFuel -> "fuel"
    | BUnmodelled -> "unmodelled")

(* ---- WBRBITS: brotli's own bit reader (Brotli/BitReaderImpl.v) ------------------------------
   brbits <hex|-> <mode 0|1> <bsz> <reads|-> op... ; op = b:<n> | t:<n> | u:<n> | p | r:<k> | f
   observation per operation: outcome/bitsread:bufBits:numBits:offset:len(bufPeek):discardBits:
   fedBits:source position:source buffered
   brspec: same arguments; Brotli/BitReaderSpec.v bcheck_model *)
let br_parse_ops ops = List.map (fun o -> match colon o with
  | ["b"; n] -> BBits (n_of_string n)
  | ["t"; n] -> BTry (n_of_string n)
  | ["u"; n] -> BFeed (n_of_string n)
  | ["r"; k] -> BRaw (nat_of_int (int_of_string k))
  | ["p"] -> BPads
  | ["f"] -> BFlush
  | _ -> failwith "brbits op") ops

let br_ints s = if s = "-" then [] else List.map (fun x -> nat_of_int (int_of_string x)) (String.split_on_char ',' s)

let br_val_string (v : bval) : string = match v with
  | VBits x -> "b:" ^ n_to_string x
  | VEof -> "ueof" | VCrash -> "crash" | VFuel -> "fuel"
  | VTry None -> "t:no" | VTry (Some x) -> "t:" ^ n_to_string x
  | VFeed -> "u"
  | VPads x -> "p:" ^ n_to_string x
  | VRaw (bs, e) -> Printf.sprintf "r:%s:%s" (if bs = [] then "-" else hex_of_bytes bs) (n_to_string e)
  | VFlush off -> "f:" ^ z_to_string off

let br_state_string (p : prd) : string =
  Printf.sprintf "%s:%s:%s:%s:%d:%s:%s:%d:%d"
    (z_to_string (bits_read p)) (n_to_string p.p_bufBits) (n_to_string p.p_numBits)
    (z_to_string p.p_offset) (List.length p.p_peek) (z_to_string p.p_discard)
    (n_to_string p.p_fed) (int_of_nat p.p_src.s_pos) (int_of_nat p.p_src.s_buf)

let () =
  register "brbits" (fun args -> match args with
    | hex :: mode :: bsz :: reads :: ops ->
      let data = if hex = "-" then [] else bytes_of_hex hex in
      let p0 = binit data (mode = "1") (br_ints reads) in
      let obs = brun (nat_of_int (int_of_string bsz)) p0 (br_parse_ops ops) in
      String.concat "," (List.map (fun (v, p) -> br_val_string v ^ "/" ^ br_state_string p) obs)
    | _ -> "badargs");
  register "brspec" (fun args -> match args with
    | hex :: mode :: bsz :: reads :: ops ->
      let data = if hex = "-" then [] else bytes_of_hex hex in
      if bcheck_model data (mode = "1") (nat_of_int (int_of_string bsz)) (br_ints reads) (br_parse_ops ops)
      then "spec-ok" else "SPEC-VIOLATED"
    | _ -> "badargs")

(* ---- WBRDEC: brotli's own prefix decoder (Brotli/PrefixDecoderImpl.v) -------------------------
   brdectab <z|g<seed>:<npl>> <assign> <codes>
   brdecread <assign> <codes> <hex|-> <mode> <bsz> <reads|-> op...   op = s | t | b:<n> *)
let br_old_of_mode (m : string) : (n -> n) * (n -> n -> n) =
  if m = "z" then ((fun _ -> N0), (fun _ _ -> N0))
  else match colon (String.sub m 1 (String.length m - 1)) with
    | [seed; npl] ->
      let seed = int_of_string seed and npl = int_of_string npl in
      (garbage seed, (fun i j -> if int_of_n i < npl then garbage (seed + 1 + int_of_n i) j else N0))
    | _ -> failwith "brdectab mode"

let fmt_codes (cs : ((n * n) * n) list) : string =
  if cs = [] then "-" else
  String.concat "," (List.map (fun ((s, l), v) -> Printf.sprintf "%s:%s:%s" (n_to_string s) (n_to_string l) (n_to_string v)) cs)

let br_rs_name (r : rsres) : string = match r with
  | RSym s -> "s:" ^ n_to_string s | RUEOF -> "ueof" | RInvalid -> "invalid" | RPanic -> "crash" | RFuel -> "fuel"

let () =
  register "brdectab" (fun args -> match args with
    | [mode; assign; codes] ->
      let (oldc, oldl) = br_old_of_mode mode in
      (match br_dec_init oldc oldl (parse_codes codes) (assign = "1") with
       | BOk0 (d, cs) -> "ok " ^ fmt_dump (dec_dump d) ^ " | " ^ fmt_codes cs
       | BCorrupt -> "corrupt"
       | BCrash -> "crash")
    | _ -> "badargs");
  register "brdecread" (fun args -> match args with
    | assign :: codes :: hex :: mode :: bsz :: reads :: ops ->
      let data = if hex = "-" then [] else bytes_of_hex hex in
      (match br_dec_init (fun _ -> N0) (fun _ _ -> N0) (parse_codes codes) (assign = "1") with
       | BOk0 (d, _) ->
         let p0 = binit data (mode = "1") (br_ints reads) in
         let dops = List.map (fun o -> match colon o with
           | ["s"] -> DSym | ["t"] -> DTry | ["b"; n] -> DBits (n_of_string n) | _ -> failwith "op") ops in
         let obs = bd_run (nat_of_int (int_of_string bsz)) d p0 dops in
         String.concat "," (List.map (fun o -> match o with
           | BDSym (r, p) -> br_rs_name r ^ "/" ^ br_state_string p
           | BDTry (r, p) ->
             (match r with None -> "crash" | Some None -> "t:no" | Some (Some s) -> "t:" ^ n_to_string s)
             ^ "/" ^ br_state_string p
           | BDBits (r, v, p) ->
             (match r with FdOk -> "b:" ^ n_to_string v | FdEof -> "ueof" | FdCrash -> "crash" | FdFuel -> "fuel")
             ^ "/" ^ br_state_string p) obs)
       | BCorrupt -> "init-corrupt"
       | BCrash -> "init-crash")
    | _ -> "badargs")

(* flimpl <nstreams> { <hexdata|-> <buffered 0/1> <fills|-> <reads|-> <sizes|-> } ... :
   the implementation-level model of flate.Reader (Flate/Impl.v) over scripted sources; one
   Reader, Reset between the streams; one observation per Read call *)
let () =
  let fmt_bytes (l : n list) : string =
    let len = List.length l in
    if len = 0 then "-"
    else if len <= 48 then hex_of_bytes l
    else begin
      let h = ref 0 in
      List.iter (fun x -> h := (!h * 1000003 + int_of_n x + 1) land (1 lsl 40 - 1)) l;
      Printf.sprintf "H%d.%d" len !h end in
  let fmt_obs (o : flobs) : string =
    match o.fo_err with
    | Some EPanic -> "Panic"
    | Some EFuel -> "Fuel"
    | e -> Printf.sprintf "%s:%s:%s:%s:%d" (fmt_bytes o.fo_bytes) (oerr_name e)
             (z_to_string o.fo_inOff) (z_to_string o.fo_outOff) (int_of_nat o.fo_srcPos) in
  register "flimpl" (fun args -> match args with
    | _ :: rest ->
      let ints s = if s = "-" then [] else List.map (fun x -> nat_of_int (int_of_string x)) (String.split_on_char ',' s) in
      let rec go st rest acc = match rest with
        | hex :: bf :: fills :: reads :: sched :: more ->
          let data = bytes_of_hex hex in
          let r = (match st with
            | None -> fl_new data (bf = "1") (ints fills) (ints reads)
            | Some s -> fl_reset s data (bf = "1") (ints fills) (ints reads)) in
          (match r with
           | Ok s0 ->
             let (obs, fin) = fl_run s0 (ints sched) in
             go (Some fin) more (String.concat "," (List.map fmt_obs obs) :: acc)
           | _ -> List.rev ("InitPanic" :: acc))
        | _ -> List.rev acc in
      String.concat "|" (go None rest [])
    | _ -> "badargs")

(* fllife <hexdata|-> <buffered 0/1> <fills|-> <reads|-> op... ;
   op = r<n> | c | R/<hexdata|->/<buffered>/<fills|->/<reads|-> :
   lifecycle histories of flate.Reader (Flate/ImplLife.v fl_life): NewReader over the first
   scripted source, then Read / Close / Reset calls; one observation per call, cut at the
   first crash as the harness does *)
let () =
  let fmt_bytes (l : n list) : string =
    let len = List.length l in
    if len = 0 then "-"
    else if len <= 48 then hex_of_bytes l
    else begin
      let h = ref 0 in
      List.iter (fun x -> h := (!h * 1000003 + int_of_n x + 1) land (1 lsl 40 - 1)) l;
      Printf.sprintf "H%d.%d" len !h end in
  (* unary naturals are immutable: the big buffer sizes are built once *)
  let memo : (int, nat) Hashtbl.t = Hashtbl.create 64 in
  let nat_of_int i = match Hashtbl.find_opt memo i with
    | Some v -> v
    | None -> let v = nat_of_int i in Hashtbl.replace memo i v; v in
  let ints s = if s = "-" then [] else List.map (fun x -> nat_of_int (int_of_string x)) (String.split_on_char ',' s) in
  let crashed (o : lobs) = match o.lo_err with Some EPanic | Some EFuel -> true | _ -> false in
  let fmt_obs (o : lobs) : string =
    if crashed o then (match o.lo_err with Some EFuel -> "Fuel" | _ -> "Panic") else
    let tail = Printf.sprintf "%s:%s:%s:%d" (oerr_name o.lo_err)
                 (z_to_string o.lo_inOff) (z_to_string o.lo_outOff) (int_of_nat o.lo_srcPos) in
    match o.lo_kind with
    | LkRead -> Printf.sprintf "r:%s:%s" (fmt_bytes o.lo_bytes) tail
    | LkClose -> "c:" ^ tail
    | LkReset -> "R:" ^ tail in
  register "fllife" (fun args -> match args with
    | hex :: bf :: fills :: reads :: ops ->
      let op_of s =
        if s = "c" then FClose
        else if s.[0] = 'r' then FRead (nat_of_int (int_of_string (String.sub s 1 (String.length s - 1))))
        else match String.split_on_char '/' s with
          | ["R"; h; b; f; r] -> FReset (bytes_of_hex h, b = "1", ints f, ints r)
          | _ -> failwith "fllife op" in
      (match fl_life (bytes_of_hex hex) (bf = "1") (ints fills) (ints reads) (List.map op_of ops) with
       | Ok obs ->
         let rec cut l = match l with
           | [] -> []
           | o :: r -> if crashed o then [fmt_obs o] else fmt_obs o :: cut r in
         let l = cut obs in
         if l = [] then "-" else String.concat "," l
       | _ -> "InitPanic")
    | _ -> "badargs")

(* ---- scripted sinks shared by wbzw / wmetaw ------------------------------------------- *)
let sink_beh s =
  if s = "a" then SAccept
  else match String.split_on_char ':' (String.sub s 1 (String.length s - 1)) with
    | [k; tag] -> SFail (nat_of_int (int_of_string k), n_of_string tag)
    | _ -> failwith "sink behaviour"
let sink_script s = if s = "-" then [] else List.map sink_beh (String.split_on_char ',' s)
(* accepted sizes of the sink calls made since [seen] calls, oldest first *)
let fresh_sizes (sink : wsink) (seen : int) : string =
  let chunks = sink.k_chunks in
  let fresh = List.length chunks - seen in
  let rec take n l acc = if n = 0 then acc else match l with [] -> acc | c :: r -> take (n - 1) r (c :: acc) in
  let sz = List.map (fun c -> string_of_int (List.length c)) (take fresh chunks []) in
  if sz = [] then "-" else String.concat "+" sz

(* wbzw <level> <sink script> <rest> op... ; op = w:<hex|-> | c | r/<script>/<rest> :
   implementation-level model of bzip2.Writer (Bzip2/WriterImpl.v) over the bit writer model
   and a scripted sink. Observation: per call <ret>:<InputOffset>:<OutputOffset>:<bytes
   accepted by each sink call of this call>, then the contents of every sink. *)
let () =
  register "wbzw" (fun args -> match args with
    | level :: script :: rest :: ops ->
      let zops = List.map (fun o ->
        if o = "c" then ZClose
        else if String.length o >= 2 && o.[0] = 'w' then ZWrite (bytes_of_hex (String.sub o 2 (String.length o - 2)))
        else match String.split_on_char '/' o with
          | ["r"; sc; rs] -> ZReset (sink_script sc, sink_beh rs)
          | _ -> failwith "wbzw op") ops in
      let obs = zrun_new (n_of_string level) (sink_script script) (sink_beh rest) zops in
      let en = oerr_name in
      let seen = ref 0 in
      let cur = ref { k_script = []; k_rest = SAccept; k_chunks = [] } in
      let finals = ref [] in
      let parts = List.map (fun ob ->
        let head = match ob.o_ret with
          | ZRWrite (n, e) -> Printf.sprintf "w:%d:%s" (int_of_nat n) (en e)
          | ZRClose e -> "c:" ^ en e
          | ZRReset -> finals := wsink_data !cur :: !finals; seen := 0; "r"
          | ZRPanic -> "panic" in
        let sz = fresh_sizes ob.o_sink !seen in
        seen := List.length ob.o_sink.k_chunks;
        cur := ob.o_sink;
        Printf.sprintf "%s:%s:%s:%s" head (z_to_string ob.o_in) (z_to_string ob.o_out) sz) obs in
      finals := wsink_data !cur :: !finals;
      String.concat "," parts ^ " " ^ String.concat "," (List.rev_map hex_of_bytes !finals)
    | _ -> "badargs")

(* wmetaw <sink script> <rest> op... ; op = w:<hex|-> | c:<mode> | r/<script>/<rest> :
   implementation-level model of meta.Writer (Meta/WriterImpl.v). Observation: per call
   <ret>:<NumBlocks>:<InputOffset>:<OutputOffset>:<accepted sizes>, then every sink. *)
let () =
  register "wmetaw" (fun args -> match args with
    | script :: rest :: ops ->
      let mops = List.map (fun o ->
        if String.length o >= 2 && o.[0] = 'w' then MWrite (bytes_of_hex (String.sub o 2 (String.length o - 2)))
        else if String.length o >= 2 && o.[0] = 'c' then MClose (fmode_of_int (int_of_string (String.sub o 2 (String.length o - 2))))
        else match String.split_on_char '/' o with
          | ["r"; sc; rs] -> MReset (sink_script sc, sink_beh rs)
          | _ -> failwith "wmetaw op") ops in
      let obs = mrun_new (sink_script script) (sink_beh rest) mops in
      let en = oerr_name in
      let seen = ref 0 in
      let cur = ref { k_script = []; k_rest = SAccept; k_chunks = [] } in
      let finals = ref [] in
      let parts = List.map (fun ob ->
        let head = match ob.mo_ret with
          | MRWrite (n, e) -> Printf.sprintf "w:%d:%s" (int_of_nat n) (en e)
          | MRClose e -> "c:" ^ en e
          | MRReset -> finals := wsink_data !cur :: !finals; seen := 0; "r"
          | MRPanic -> "panic" in
        let sz = fresh_sizes ob.mo_sink !seen in
        seen := List.length ob.mo_sink.k_chunks;
        cur := ob.mo_sink;
        Printf.sprintf "%s:%s:%s:%s:%s" head (z_to_string ob.mo_nblocks) (z_to_string ob.mo_in) (z_to_string ob.mo_out) sz) obs in
      finals := wsink_data !cur :: !finals;
      String.concat "," parts ^ " " ^ String.concat "," (List.rev_map hex_of_bytes !finals)
    | _ -> "badargs")

(* bzimpl <nstreams> { <hexdata|-> <buffered 0/1> <fills|-> <reads|-> <sizes|-> } ... :
   the implementation-level model of bzip2.Reader (Bzip2/Impl.v) over scripted sources; one
   Reader, Reset between the streams; one observation per Read call:
   bytes:errclass:InputOffset:OutputOffset:sourcePos *)
let () =
  let fmt_bytes (l : n list) : string =
    let len = List.length l in
    if len = 0 then "-"
    else if len <= 48 then hex_of_bytes l
    else begin
      let h = ref 0 in
      List.iter (fun x -> h := (!h * 1000003 + int_of_n x + 1) land (1 lsl 40 - 1)) l;
      Printf.sprintf "H%d.%d" len !h end in
  let fmt_obs (o : bzobs) : string =
    match o.bo_err with
    | Some EPanic -> "Panic"
    | Some EFuel -> "Fuel"
    | e -> Printf.sprintf "%s:%s:%s:%s:%d" (fmt_bytes o.bo_bytes) (oerr_name e)
             (z_to_string o.bo_inOff) (z_to_string o.bo_outOff) (int_of_nat o.bo_srcPos) in
  register "bzimpl" (fun args -> match args with
    | _ :: rest ->
      let nat_tr i = let rec go i acc = if i <= 0 then acc else go (i - 1) (S acc) in go i O in
      let ints s = if s = "-" then [] else List.rev (List.rev_map (fun x -> nat_tr (int_of_string x)) (String.split_on_char ',' s)) in
      let rec go st rest acc = match rest with
        | hex :: bf :: fills :: reads :: sched :: more ->
          let data = bytes_of_hex hex in
          let s0 = (match st with
            | None -> bz_new data (bf = "1") (ints fills) (ints reads)
            | Some s -> bz_reset s data (bf = "1") (ints fills) (ints reads)) in
          let (obs, fin) = bz_run s0 (ints sched) in
          go (Some fin) more (String.concat "," (List.rev (List.rev_map fmt_obs obs)) :: acc)
        | _ -> List.rev acc in
      String.concat "|" (go None rest [])
    | _ -> "badargs")

(* metar <hexdata|-> <buffered 0/1> <fills|-> <reads|-> op... ;
   op = r:<n>[x<k>] (k Reads with a buffer of n bytes) | c (Close) |
        R/<hexdata|->/<buffered>/<fills|->/<reads|-> (Reset over a new scripted source) :
   implementation-level model of meta.Reader (Meta/ReaderImpl.v). One observation per call:
   r:<bytes>:<err>:<InputOffset>:<OutputOffset>:<NumBlocks>:<FinalMode>:<source position>,
   c:<err>:..., R:... *)
let () =
  register "metar" (fun args -> match args with
    | hex :: bf :: fills :: reads :: ops ->
      let ints s = if s = "-" then [] else List.map (fun x -> nat_of_int (int_of_string x)) (String.split_on_char ',' s) in
      let rec rep k x acc = if k <= 0 then acc else rep (k - 1) x (x :: acc) in
      let mops = List.concat (List.map (fun o ->
        if o = "c" then [RdClose]
        else if String.length o >= 2 && o.[0] = 'r' then
          (match String.split_on_char 'x' (String.sub o 2 (String.length o - 2)) with
           | [n] -> [RdRead (nat_of_int (int_of_string n))]
           | [n; k] -> rep (int_of_string k) (RdRead (nat_of_int (int_of_string n))) []
           | _ -> failwith "metar read op")
        else match String.split_on_char '/' o with
          | ["R"; h; b; f; r] -> [RdReset (bytes_of_hex h, b = "1", ints f, ints r)]
          | _ -> failwith "metar op") ops) in
      let (obs, _) = mr_run (mr_new (bytes_of_hex hex) (bf = "1") (ints fills) (ints reads)) mops in
      let tail ob = Printf.sprintf "%s:%s:%s:%d:%d" (z_to_string ob.ro_inOff) (z_to_string ob.ro_outOff)
                      (z_to_string ob.ro_nblocks) (int_of_fmode ob.ro_FinalMode) (int_of_nat ob.ro_srcPos) in
      String.concat "," (List.map (fun ob ->
        match ob.ro_ret with
        | RetRead (_, Some EPanic) -> "Panic"
        | RetRead (_, Some EFuel) -> "Fuel"
        | RetRead (bs, e) -> Printf.sprintf "r:%s:%s:%s" (hex_of_bytes bs) (oerr_name e) (tail ob)
        | RetClose e -> Printf.sprintf "c:%s:%s" (oerr_name e) (tail ob)
        | RetReset -> "R:" ^ tail ob) obs)
    | _ -> "badargs")

(* bzlife <hexdata|-> <buffered 0/1> <fills|-> <reads|-> op... ;
   op = r<n> | c | R/<hexdata|->/<buffered>/<fills|->/<reads|-> :
   lifecycle histories of bzip2.Reader (Bzip2/ImplLife.v bz_life): NewReader over the first
   scripted source, then Read / Close / Reset calls; one observation per call, cut at the
   first crash as the harness does *)
let () =
  let fmt_bytes (l : n list) : string =
    let len = List.length l in
    if len = 0 then "-"
    else if len <= 48 then hex_of_bytes l
    else begin
      let h = ref 0 in
      List.iter (fun x -> h := (!h * 1000003 + int_of_n x + 1) land (1 lsl 40 - 1)) l;
      Printf.sprintf "H%d.%d" len !h end in
  (* unary naturals are immutable: the big buffer sizes are built once *)
  let memo : (int, nat) Hashtbl.t = Hashtbl.create 64 in
  let nat_tr i = let rec go i acc = if i <= 0 then acc else go (i - 1) (S acc) in go i O in
  let nat_of_int i = match Hashtbl.find_opt memo i with
    | Some v -> v
    | None -> let v = nat_tr i in Hashtbl.replace memo i v; v in
  let ints s = if s = "-" then [] else List.rev (List.rev_map (fun x -> nat_of_int (int_of_string x)) (String.split_on_char ',' s)) in
  let crashed (o : bzlobs) = match o.bl_err with Some EPanic | Some EFuel -> true | _ -> false in
  let fmt_obs (o : bzlobs) : string =
    if crashed o then (match o.bl_err with Some EFuel -> "Fuel" | _ -> "Panic") else
    let tail = Printf.sprintf "%s:%s:%s:%d" (oerr_name o.bl_err)
                 (z_to_string o.bl_inOff) (z_to_string o.bl_outOff) (int_of_nat o.bl_srcPos) in
    match o.bl_kind with
    | BkRead -> Printf.sprintf "r:%s:%s" (fmt_bytes o.bl_bytes) tail
    | BkClose -> "c:" ^ tail
    | BkReset -> "R:" ^ tail in
  register "bzlife" (fun args -> match args with
    | hex :: bf :: fills :: reads :: ops ->
      let op_of s =
        if s = "c" then BClose
        else if s.[0] = 'r' then BRead (nat_of_int (int_of_string (String.sub s 1 (String.length s - 1))))
        else match String.split_on_char '/' s with
          | ["R"; h; b; f; r] -> BReset (bytes_of_hex h, b = "1", ints f, ints r)
          | _ -> failwith "bzlife op" in
      (* run call by call so that a crash ends the history (and the work) where the harness stops *)
      let rec go st ops acc = match ops with
        | [] -> List.rev acc
        | o :: r ->
          let (ob, st') = bz_op st o in
          if crashed ob then List.rev (fmt_obs ob :: acc) else go st' r (fmt_obs ob :: acc) in
      let l = go (bz_new (bytes_of_hex hex) (bf = "1") (ints fills) (ints reads)) (List.map op_of ops) [] in
      if l = [] then "-" else String.concat "," l
    | _ -> "badargs")

(* ---- xflate Writer / Reader with Reset (XFlate/WriterReset.v, XFlate/ReaderReset.v) ----
   xwr <zero|new> <pre hex> <lvl> <chunk> <idx> op... ; op = w:<hex> | f:<mode> | c | R:<pre hex>
     one observation per call:
     <n>:<err>:<InputOffset>:<OutputOffset>:<len of the current sink>:<len(idx.Records)>:<idx.BackSize>,
     then the bytes of every sink: at each Reset those of the sink being abandoned, at the end
     those of the current one
   xwrkb : the same with the regression "Reset keeps idx.BackSize" (not used by the checks; for
     replaying the witness of xw_reset_keepback_refuted against the real code)
   xrr op... ; op = s:<off>:<whence> | r:<n> | c | R:<hexdata> ; starts from the zero Reader, so
     NewReader is the first R
     one observation per call, each followed by
     @<OutputOffset of the decompressor object | kept>/<ri>/<offset>/<discard>/<chk.csize>/<chk.rsize>/<chk.typ>
     (just @~ after a Seek/Read/Close that returned an error other than io.EOF); for R:
     R:<err>:<ranges read from the new source while opening>:<len(idx.Records)>@...
   xrrlog op... : per call the ranges the model logs (for the coverage oracle of the harness) *)
let coalesce (l : (int * int) list) : (int * int) list =
  let rec go acc l = match acc, l with
    | _, [] -> List.rev acc
    | _, (_, 0) :: r -> go acc r
    | (o, n) :: a, (o2, n2) :: r when o + n = o2 -> go ((o, n + n2) :: a) r
    | _, x :: r -> go (x :: acc) r in
  go [] l
let log_to_string (l : (int * int) list) : string =
  if l = [] then "-" else String.concat ";" (List.map (fun (o, n) -> Printf.sprintf "%d+%d" o n) l)
let ilog (l : (n * n) list) : (int * int) list = List.map (fun (o, n) -> (int_of_n o, int_of_n n)) l

let xwr_handler (keepback : bool) (args : string list) : string =
  match args with
  | mode :: pre :: lvl :: chunk :: idx :: ops ->
    (match xwr_start (mode = "zero") (bytes_of_hex pre) (z_of_string lvl) (z_of_string chunk) (z_of_string idx) with
     | Inl _ -> "new:refused"
     | Inr st0 ->
       let wops = List.map (fun o -> match colon o with
         | ["w"; h] -> WsOp (WWrite (bytes_of_hex h))
         | ["f"; m] -> WsOp (WFlush (flushmode_of_int (int_of_string m)))
         | ["R"; h] -> WsReset (bytes_of_hex h)
         | _ -> WsOp WClose) ops in
       (* step by step, to read idx.Records / idx.BackSize off the state after every call *)
       let step = if keepback then ws_step_keepback else ws_step in
       let st = ref st0 in
       let obs = List.map (fun o -> let (ob, st') = step ext_deflate !st o in st := st'; (ob, st')) wops in
       let cur = ref (match st0 with WZero -> [] | WLive s -> s.w_sink) in
       let sinks = ref [] in
       let per = List.map2 (fun o (((n, e), ((i, ou), sk)), st') ->
         (match o with WsReset _ -> sinks := hex_of_bytes !cur :: !sinks | _ -> ());
         cur := sk;
         let (nrecs, back) = (match st' with WZero -> (0, 0) | WLive s -> (List.length s.w_recs, int_of_n s.w_back)) in
         Printf.sprintf "%d:%s:%d:%d:%d:%d:%d" (int_of_n n) (oerr_name e) (int_of_n i) (int_of_n ou) (List.length sk) nrecs back) wops obs in
       sinks := hex_of_bytes !cur :: !sinks;
       Printf.sprintf "%s|%s" (if per = [] then "-" else String.concat "," per) (String.concat ";" (List.rev !sinks)))
  | _ -> "badargs"

let xrr_ops (ops : string list) : xrop list =
  List.map (fun o -> match colon o with
    | ["s"; off; wh] -> RsOp (RSeek (z_of_string off, z_of_string wh))
    | ["r"; n] -> RsOp (RRead (n_of_string n))
    | ["R"; h] -> RsReset (bytes_of_hex h)
    | _ -> RsOp RClose) ops

let () =
  register "xwr" (xwr_handler false);
  register "xwrkb" (xwr_handler true);
  register "xrr" (fun ops ->
    (* step by step, to read the decompressor's OutputOffset and len(idx.Records) off the state *)
    let st = ref (RZero false) in
    let zout st = (match st with RZero _ -> None | RLive s -> Some (int_of_n s.r_zr.z_outoff)) in
    let obs = List.map (fun o -> let before = zout !st in let (ob, st') = rs_step !st o in st := st'; (ob, st', before)) (xrr_ops ops) in
    let per = List.map (fun ((o, lg), st', before) ->
      let (cur, nrecs) = (match st' with
        | RZero _ -> ("/0/0/0/0/0/0", 0)
        | RLive s ->
          let ((cs, rs), ty) = s.r_chk in
          (Printf.sprintf "/%s/%s/%s/%s/%s/%s" (z_to_string s.r_ri) (z_to_string s.r_offset)
             (z_to_string s.r_discard) (z_to_string cs) (z_to_string rs) (z_to_string ty), List.length s.r_recs)) in
      (* the decompressor's OutputOffset: see the harness (wxfreset.go) for "kept" and "~" *)
      let zo (is_reset : bool) (e : err option) =
        if (not is_reset) && e <> None && e <> Some EEOF && zout st' <> None then "~" else
        (match zout st' with
         | None -> "-"
         | Some z ->
           if is_reset && e <> None && before = Some z then "kept"
           else string_of_int z) ^ cur in
      match o with
      | RsO (OSeek (p, e)) -> Printf.sprintf "s:%s:%s@%s" (if e = None then z_to_string p else "0") (oerr_name e) (zo false e)
      | RsO (ORead (b, e)) -> Printf.sprintf "r:%s:%s@%s" (hex_of_bytes b) (oerr_name e) (zo false e)
      | RsO (OClose e) -> Printf.sprintf "c:%s@%s" (oerr_name e) (zo false e)
      | RsOReset e ->
        (* after a successful open the last entry is the first chunk, prepared but not read *)
        let l = ilog lg in
        let l = if e = None then List.rev (List.tl (List.rev l)) else l in
        Printf.sprintf "R:%s:%s:%d@%s" (oerr_name e) (log_to_string (coalesce l)) nrecs (zo true e)) obs in
    if per = [] then "-" else String.concat "," per);
  register "xrrlog" (fun ops ->
    let xops = xrr_ops ops in
    let (obs, _) = rs_run (RZero false) xops in
    let prev = ref 0 in
    let per = List.map2 (fun o (_, lg) ->
      let l = ilog lg in
      let fresh = (match o with
        | RsReset _ -> l
        | _ -> let rec drop k l = if k <= 0 then l else match l with [] -> [] | _ :: r -> drop (k - 1) r in drop !prev l) in
      prev := List.length l;
      log_to_string fresh) xops obs in
    if per = [] then "-" else String.concat "," per)

(* bzpfx <numSyms> <sym,sym,...|-> : the prefix-coding stage of one bzip2 block on its own
   (Bzip2/SpecW.v encode_prefix), bits packed most significant first, zero padded *)
let () =
  register "bzpfx" (fun args -> match args with
    | [ns; syms] ->
      let l = if syms = "-" then [] else List.map (fun x -> n_of_int (int_of_string x)) (String.split_on_char ',' syms) in
      let acc = encode_prefix l (n_of_int (int_of_string ns)) [] in
      let bits = List.rev acc in
      hex_of_bytes (pack_msb (nat_of_int (List.length bits + 2)) bits [])
    | _ -> "badargs")

(* ---- WBRIMPL: brotli.Reader (Brotli/Impl.v) ------------------------------------------------------
   brimpl <nseg> { <hex|-> <mode 0|1> <bsz> <reads|-> <sched> }*
   per segment (joined by |) the Read calls (joined by ,):
   <hex>@<err>@<InputOffset>@<OutputOffset>[@<state>]   (state while err = nil) *)
let brimpl_blk (b : bdk) : string =
  Printf.sprintf "%s:%s:%s:%s:%d" (n_to_string b.k_numTypes) (z_to_string b.k_typeLen)
    (n_to_string b.k_t0) (n_to_string b.k_t1) (int_of_nat b.k_len)

let brimpl_state (s : rst) : string =
  let step = match s.zr_step with
    | KStreamHeader -> "streamHeader" | KBlockHeader -> "blockHeader"
    | KRawData -> "rawData" | KCommands -> "commands" in
  let b2s b = if b then "1" else "0" in
  let (((d0, d1), d2), d3) = s.zr_dists in
  let p = s.zr_rd in
  let d = s.zr_dict in
  String.concat ";" [
    step ^ ":" ^ n_to_string s.zr_stepState;
    String.concat ":" [z_to_string s.zr_blkLen; z_to_string s.zr_insLen; z_to_string s.zr_cpyLen; b2s s.zr_last];
    brimpl_blk s.zr_iac; brimpl_blk s.zr_lit; brimpl_blk s.zr_dst;
    String.concat ":" [n_to_string s.zr_litTypeLen; n_to_string s.zr_litMapLen; n_to_string s.zr_cmode];
    String.concat ":" [n_to_string s.zr_distTypeLen; n_to_string s.zr_distMapLen];
    String.concat ":" [z_to_string s.zr_dist; z_to_string d0; z_to_string d1; z_to_string d2; z_to_string d3; b2s s.zr_distZero];
    String.concat ":" [n_to_string s.zr_npostfix; n_to_string s.zr_ndirect];
    string_of_int (List.length s.zr_word);
    String.concat ":" [n_to_string p.p_bufBits; n_to_string p.p_numBits; z_to_string p.p_offset;
                       string_of_int (List.length p.p_peek); z_to_string p.p_discard; n_to_string p.p_fed];
    String.concat ":" [z_to_string d.d_len; z_to_string d.d_wr; z_to_string d.d_rd; b2s d.d_full] ]

(* buffer sizes as unary numbers, shared between calls *)
let brimpl_nat_memo : (int, nat) Hashtbl.t = Hashtbl.create 64
let brimpl_nat (i : int) : nat =
  match Hashtbl.find_opt brimpl_nat_memo i with
  | Some n -> n
  | None -> let n = nat_of_int i in Hashtbl.replace brimpl_nat_memo i n; n
let brimpl_sched s = if s = "-" then [] else List.map (fun x -> brimpl_nat (int_of_string x)) (String.split_on_char ',' s)

let () =
  register "brimpl" (fun args -> match args with
    | nseg :: rest ->
      let dct = get_brdict () in
      let dl = String.length dct in
      let dict_byte (off : n) : n =
        let i = int_of_n off in if i < dl then byte_n.(Char.code dct.[i]) else N0 in
      let dict_len = n_of_int dl in
      let nseg = int_of_string nseg in
      let rec go k rest (st : rst option) acc =
        if k = nseg then List.rev acc else
        match rest with
        | hex :: mode :: bsz :: reads :: sched :: rest' ->
          let data = if hex = "-" then [] else bytes_of_hex hex in
          let reads = br_ints reads in
          let s0 = (match st with
            | None -> br_new data (mode = "1") reads
            | Some s -> br_reset s data (mode = "1") reads) in
          let bszn = nat_of_int (int_of_string bsz) in
          let rec calls s sch out =
            match sch with
            | [] -> (List.rev out, Some s)
            | n :: sch' ->
              (match br_read bszn dict_len dict_byte s n with
               | RdRet (bs, e, s') ->
                 let base = Printf.sprintf "%s@%s@%s@%s" (hex_of_bytes bs) (oerr_name e)
                              (z_to_string s'.zr_inOff) (z_to_string s'.zr_outOff) in
                 (match e with
                  | None -> calls s' sch' ((base ^ "@" ^ brimpl_state s') :: out)
                  | Some _ -> (List.rev (base :: out), Some s'))
               | RdPanic -> (List.rev ("panic" :: out), None)
               | RdHang -> (List.rev ("hang" :: out), None)) in
          let (out, fin) = calls s0 (brimpl_sched sched) [] in
          (match fin with
           | Some s -> go (k + 1) rest' (Some s) (String.concat "," out :: acc)
           | None -> List.rev (String.concat "," out :: acc))
        | _ -> List.rev ("badargs" :: acc) in
      String.concat "|" (go 0 rest None [])
    | _ -> "badargs")
