(* entry point: cases on stdin (or file argv[1]), observations on stdout *)
let () =
  let ic = if Array.length Sys.argv > 1 then open_in Sys.argv.(1) else stdin in
  let oc = if Array.length Sys.argv > 2 then open_out Sys.argv.(2) else stdout in
  (try
    while true do
      let line = input_line ic in
      if line <> "" && line.[0] <> '#' then begin
        match Driver.split_ws line with
        | id :: kind :: args ->
          let obs =
            try
              (match Hashtbl.find_opt Driver.handlers kind with
               | Some f -> f args
               | None -> "unknown-kind")
            with
            | Stack_overflow -> "model-stack-overflow"
            | Out_of_memory -> "model-oom"
            | Failure m -> "model-failure:" ^ m in
          output_string oc (id ^ " " ^ obs ^ "\n")
        | _ -> ()
      end
    done
  with End_of_file -> ());
  close_out oc
