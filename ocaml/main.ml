(* entry point. batch: driver <cases> <out>; interactive: driver --serve
   (one case per stdin line, one observation per stdout line; a model that
   needs an external component prints "EXT <request>" and reads one answer
   line) *)
let handle line =
  match Driver.split_ws line with
  | id :: kind :: args ->
    let obs =
      try
        (match Hashtbl.find_opt Driver.handlers kind with
         | Some f -> f args
         | None -> "unknown-kind")
      with
      | Stack_overflow -> "model-stack-overflow"
      | Out_of_memory -> "model-oom"
      | Failure m -> "model-failure:" ^ m in
    Some (id ^ " " ^ obs)
  | _ -> None

let () =
  if Array.length Sys.argv > 1 && Sys.argv.(1) = "--serve" then begin
    (try
      while true do
        let line = input_line stdin in
        (match handle line with
         | Some o -> print_string (o ^ "\n"); flush stdout
         | None -> print_string "?\n"; flush stdout)
      done
    with End_of_file -> ())
  end else begin
    let ic = if Array.length Sys.argv > 1 then open_in Sys.argv.(1) else stdin in
    let oc = if Array.length Sys.argv > 2 then open_out Sys.argv.(2) else stdout in
    (try
      while true do
        let line = input_line ic in
        if line <> "" && line.[0] <> '#' then
          match handle line with
          | Some o -> output_string oc (o ^ "\n")
          | None -> ()
      done
    with End_of_file -> ());
    close_out oc
  end
