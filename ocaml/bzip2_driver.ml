(* Stand-alone driver for the extracted bzip2 models (trusted glue).

   Build (scratch directory):
     coqc -Q /verif/coq V /verif/coq/Bzip2/ExtractBz.v
     ocamlfind ocamlopt -w -a bzmodel.mli bzmodel.ml /verif/ocaml/bzip2_driver.ml -o bzdriver

   One request per line on stdin, one answer line on stdout (flushed):
     <id> dec <hex>                -> <id> <err> <hexout> <used>
     <id> enc <level> <hex>        -> <id> <hexout>
   stage requests (compared one by one with the Go code by cmd/bztest):
     <id> crc <hex>                -> <id> <crc>
     <id> rle1 <L> <hex>           -> <id> <hexblock> <crc> <unconsumed>
     <id> bwt <hex>                -> <id> <hex> <ptr>
     <id> mtf <dicthex> <hex>      -> <id> <s0,s1,...>
     <id> genlen <c0,c1,...>       -> <id> <l0,l1,...>
     <id> hsym <l0,l1,...> <bits>  -> <id> <sym|err> <bitsused>     (bits: string of 0/1, "-" if empty)
     <id> bwtdec <ptr> <hex>       -> <id> <hex>
     <id> mtfdec <max> <dicthex> <s0,s1,...> -> <id> ok <hex> | <id> err
     <id> rle1dec <hex>            -> <id> <err> <hex> <crc>
   <hex> is "-" for the empty string. *)
open Bzmodel

let rec pos_of_int (n : int) : positive =
  if n = 1 then XH
  else if n land 1 = 0 then XO (pos_of_int (n lsr 1))
  else XI (pos_of_int (n lsr 1))
let n_of_int (n : int) : n = if n = 0 then N0 else Npos (pos_of_int n)
let rec int_of_pos (p : positive) : int =
  match p with XH -> 1 | XO q -> 2 * int_of_pos q | XI q -> 2 * int_of_pos q + 1
let int_of_n (x : n) : int = match x with N0 -> 0 | Npos p -> int_of_pos p

let hexval c = match c with
  | '0'..'9' -> Char.code c - 48 | 'a'..'f' -> Char.code c - 87
  | 'A'..'F' -> Char.code c - 55 | _ -> failwith "hex"

(* the 256 byte values, shared *)
let byte_n : n array = Array.init 256 n_of_int

let bytes_of_hex (s : string) : n list =
  if s = "-" then [] else begin
    let l = String.length s / 2 in
    let r = ref [] in
    for i = l - 1 downto 0 do
      r := byte_n.(16 * hexval s.[2*i] + hexval s.[2*i+1]) :: !r
    done; !r end
let hex_of_bytes (l : n list) : string =
  if l = [] then "-" else begin
    let b = Buffer.create 65536 in
    let hx = "0123456789abcdef" in
    List.iter (fun x -> let v = int_of_n x in
                Buffer.add_char b hx.[(v lsr 4) land 15]; Buffer.add_char b hx.[v land 15]) l;
    Buffer.contents b end

let ints_of_csv (s : string) : int list =
  if s = "-" then [] else List.map int_of_string (String.split_on_char ',' s)
let csv_of_ns (l : n list) : string =
  if l = [] then "-" else String.concat "," (List.map (fun x -> string_of_int (int_of_n x)) l)

let err_name (e : err) : string = match e with
  | EEOF -> "EOF" | EUEOF -> "UEOF" | ECorrupted -> "Corrupted" | EDeprecated -> "Deprecated"
  | EInvalid -> "Invalid" | EInternal -> "Internal" | EClosed -> "Closed"
  | EClosedPipe -> "ClosedPipe" | ESrc t -> "Src" ^ string_of_int (int_of_n t)
  | EPanic -> "Panic" | EFuel -> "Fuel"
let oerr_name (o : err option) : string = match o with None -> "nil" | Some e -> err_name e

let split_ws (s : string) : string list =
  List.filter (fun x -> x <> "") (String.split_on_char ' ' s)

let handle (kind : string) (args : string list) : string =
  match kind, args with
  | "dec", [hex] ->
    let r = bzip2_decode (bytes_of_hex hex) in
    Printf.sprintf "%s %s %d" (oerr_name r.bz_err) (hex_of_bytes r.bz_out) (int_of_n r.bz_used)
  | "enc", [lvl; hex] ->
    hex_of_bytes (bzip2_encode (n_of_int (int_of_string lvl)) (bytes_of_hex hex))
  | "crc", [hex] -> string_of_int (int_of_n (bz_crc (bytes_of_hex hex)))
  | "rle1", [l; hex] ->
    let ((blk, crc), rest) =
      rle1_fill (n_of_int (int_of_string l)) (bytes_of_hex hex) [] N0 N0 N0 crc_init in
    Printf.sprintf "%s %d %d" (hex_of_bytes blk) (int_of_n (crc_final crc)) (List.length rest)
  | "bwt", [hex] ->
    let (out, ptr) = bwt_encode (bytes_of_hex hex) in
    Printf.sprintf "%s %d" (hex_of_bytes out) (int_of_n ptr)
  | "mtf", [dict; hex] ->
    csv_of_ns (mtf_rle2_encode (bytes_of_hex hex) (bytes_of_hex dict) N0 [])
  | "genlen", [cs] ->
    csv_of_ns (lengths_of_counts (List.map n_of_int (ints_of_csv cs)))
  | "hsym", [ls; bits] ->
    let t = mk_table (List.map n_of_int (ints_of_csv ls)) in
    let bl = if bits = "-" then [] else List.init (String.length bits) (fun i -> bits.[i] = '1') in
    let r = run (read_symbol t) (ast_init bl) in
    (match r with
     | Done (s, st) -> Printf.sprintf "%d %d" (int_of_n s) (int_of_n st.a_pos)
     | Fail (e, st) -> Printf.sprintf "%s %d" (err_name e) (int_of_n st.a_pos))
  | "bwtdec", [ptr; hex] ->
    let tt = bytes_of_hex hex in
    hex_of_bytes (bwt_decode tt (n_of_int (List.length tt)) (n_of_int (int_of_string ptr)))
  | "mtfdec", [mx; dict; syms] ->
    (match mtf_rle2_decode (List.map n_of_int (ints_of_csv syms)) (bytes_of_hex dict)
             (n_of_int (int_of_string mx)) (n_of_int 1) N0 N0 [] with
     | None -> "err"
     | Some (_, acc) -> "ok " ^ hex_of_bytes (List.rev acc))
  | "rle1dec", [hex] ->
    let r = run (rle1_emit (bytes_of_hex hex) N0 N0 crc_init) (ast_init []) in
    let crc = (match r with Done (c, _) -> int_of_n (crc_final c) | Fail _ -> 0) in
    Printf.sprintf "%s %s %d" (oerr_name (res_err r)) (hex_of_bytes (res_out r)) crc
  | _ -> "badargs"

let () =
  try
    while true do
      let line = input_line stdin in
      (match split_ws line with
       | id :: kind :: args ->
         let ans = (try handle kind args with
                    | Stack_overflow -> "stack-overflow"
                    | Failure m -> "failure:" ^ m) in
         print_string id; print_char ' '; print_string ans; print_char '\n'
       | _ -> print_string "badline\n");
      flush stdout
    done
  with End_of_file -> ()
