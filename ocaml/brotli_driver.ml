(* Hand-written driver (trusted) for the extracted Brotli model
   (/verif/coq/Brotli/Spec.v, extracted as module Brmodel).

   usage: brotli_driver DICTFILE < cases
   DICTFILE: the raw 122784-byte static dictionary (RFC 7932 appendix A).
   stdin:  one case per line, "id hex" (hex "-" = empty input)
   stdout: "id errname hexout used" per case, errname = nil | UEOF |
           Corrupted | Panic | Fuel | ... *)
open Brmodel

let rec pos_of_int (n : int) : positive =
  if n = 1 then XH
  else if n land 1 = 0 then XO (pos_of_int (n lsr 1))
  else XI (pos_of_int (n lsr 1))
let n_of_int (n : int) : n = if n = 0 then N0 else Npos (pos_of_int n)
let rec int_of_pos (p : positive) : int =
  match p with XH -> 1 | XO q -> 2 * int_of_pos q | XI q -> 2 * int_of_pos q + 1
let int_of_n (x : n) : int = match x with N0 -> 0 | Npos p -> int_of_pos p

let byte_n : n array = Array.init 256 n_of_int

let hexval c = match c with
  | '0'..'9' -> Char.code c - 48 | 'a'..'f' -> Char.code c - 87
  | 'A'..'F' -> Char.code c - 55 | _ -> failwith "hex"
let bytes_of_hex (s : string) : n list =
  if s = "-" then [] else begin
    let l = String.length s / 2 in
    let r = ref [] in
    for i = l - 1 downto 0 do
      r := byte_n.(16 * hexval s.[2*i] + hexval s.[2*i+1]) :: !r
    done; !r end
let hex_of_bytes (l : n list) : string =
  if l = [] then "-" else begin
    let b = Buffer.create 64 in
    List.iter (fun x -> Buffer.add_string b (Printf.sprintf "%02x" (int_of_n x))) l;
    Buffer.contents b end

let err_name (e : err) : string = match e with
  | EEOF -> "EOF" | EUEOF -> "UEOF" | ECorrupted -> "Corrupted" | EDeprecated -> "Deprecated"
  | EInvalid -> "Invalid" | EInternal -> "Internal" | EClosed -> "Closed"
  | EClosedPipe -> "ClosedPipe" | ESrc t -> "Src" ^ string_of_int (int_of_n t)
  | EPanic -> "Panic" | EFuel -> "Fuel"
let oerr_name (o : err option) : string = match o with None -> "nil" | Some e -> err_name e

let () =
  if Array.length Sys.argv < 2 then (prerr_endline "usage: brotli_driver DICTFILE"; exit 2);
  let ic = open_in_bin Sys.argv.(1) in
  let len = in_channel_length ic in
  let dict = really_input_string ic len in
  close_in ic;
  if len <> 122784 then (prerr_endline "dictionary file must be 122784 bytes"; exit 2);
  let dict_byte (off : n) : n =
    let i = int_of_n off in
    if i < len then byte_n.(Char.code dict.[i]) else N0 in
  (try
    while true do
      let line = input_line stdin in
      match List.filter (fun x -> x <> "") (String.split_on_char ' ' (String.trim line)) with
      | [id; hex] ->
        let r = brotli_decode dict_byte (bytes_of_hex hex) in
        Printf.printf "%s %s %s %d\n%!" id (oerr_name r.br_err) (hex_of_bytes r.br_out) (int_of_n r.br_used)
      | [] -> ()
      | _ -> Printf.printf "? badline\n%!"
    done
  with End_of_file -> ())
